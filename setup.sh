#!/bin/bash
# setup_cmd: offline; parse every specification and warm the Go build cache.
set -e
cd "$(dirname "$0")"
export GOFLAGS=-mod=mod GOPROXY=off GOSUMDB=off GOTOOLCHAIN=local
chmod +x check tools/*.py tools/*.sh 2>/dev/null || true
tmp=$(mktemp -d /tmp/verif-setup-XXXXXX)
trap 'rm -rf "$tmp"' EXIT
cp spec/*.tla spec/trace/*.tla "$tmp"/
for f in "$tmp"/*.tla; do
  (cd "$tmp" && java -Djava.io.tmpdir="$tmp" -cp /opt/veriftools/tla/tla2tools.jar:/opt/veriftools/tla/CommunityModules-deps.jar tla2sany.SANY "$(basename "$f")" > "$f.sany" 2>&1) || { echo "SANY failed for $f"; cat "$f.sany"; exit 1; }
  if grep -q "Fatal errors\|\*\*\* Errors" "$f.sany"; then echo "SANY errors in $f"; cat "$f.sany"; exit 1; fi
done
cp -r harness "$tmp/h" && cp /repo/go.sum "$tmp/h/go.sum" && (cd "$tmp/h" && go build -tags verif -o "$tmp/harness" .)
echo "setup ok"
