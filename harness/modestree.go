package main

// Mode S (spec -> code) for the publish/subscribe tree: replays every stimulus
// order that TLC enumerated from spec/ModeSTree.tla on real publishers and
// subscriptions below a driver-controlled root subscription, with a quiescence
// barrier after each stimulus (every leaf is drained at the barrier), and
// records the history of what was observable next to the specification's
// prediction.  trace/ModeSTreeRecords.tla compares.

import (
	"bufio"
	"context"
	"encoding/json"
	"flag"
	"fmt"
	"os"
	"strings"
	"time"

	"github.com/boz/kcache"
)

func init() { commands["modestree"] = modesTreeMain }

type treeBehaviour struct {
	Stim []string        `json:"stim"`
	Hist json.RawMessage `json:"hist"`
}

func modesTreeMain(args []string) int {
	fs := flag.NewFlagSet("modestree", flag.ExitOnError)
	in := fs.String("in", "", "behaviours (ndjson, as printed by TLC from ModeSTree.tla)")
	out := fs.String("out", "", "output ndjson file")
	shards := fs.Int("shards", 1, "")
	shard := fs.Int("shard", 0, "")
	fs.Parse(args)
	theTracer.End()
	f, err := os.Open(*in)
	if err != nil {
		fmt.Fprintln(os.Stderr, err)
		return 2
	}
	w := newNDWriter(*out)
	sc := bufio.NewScanner(f)
	sc.Buffer(make([]byte, 1<<20), 1<<24)
	n, i := 0, 0
	for sc.Scan() {
		i++
		if i%*shards != *shard {
			continue
		}
		var b treeBehaviour
		if err := json.Unmarshal(sc.Bytes(), &b); err != nil {
			fmt.Fprintln(os.Stderr, "bad behaviour line:", err)
			return 2
		}
		replayTreeBehaviour(w, b)
		n++
	}
	w.close()
	fmt.Printf("modestree: behaviours=%d lines=%d\n", n, w.n)
	return 0
}

type mtNode struct {
	kind string
	sub  kcache.Subscription // leaf
	pub  kcache.Controller   // clone
	done <-chan struct{}
	log  []string
	lazy bool // read only at the end of the order
	dead bool // driver bookkeeping only (which node is "live" for the choice of the stimulus' target)
	par  int
}

func replayTreeBehaviour(w *ndWriter, b treeBehaviour) {
	log := newLog(nil)
	ctx, cancel := context.WithCancel(context.Background())
	pcache := kcache.VerifNewCache(ctx, log, nil, mkFilter("null"))
	readych := make(chan struct{})
	close(readych)
	psub := kcache.VerifNewSubscription(log, nil, readych, pcache.Reader())
	root := kcache.VerifNewPublisher(log, psub)
	var nodes []*mtNode
	emitted, errs := 0, 0
	rootDead := false
	quiet := true
	lastClone := func() int {
		for i := len(nodes) - 1; i >= 0; i-- {
			if nodes[i].kind == "clone" && !nodes[i].dead {
				return i + 1
			}
		}
		return 0
	}
	pubOf := func(p int) kcache.Publisher {
		if p == 0 {
			return root
		}
		return nodes[p-1].pub
	}
	var under func(i, x int) bool
	under = func(i, x int) bool { return i == x || (nodes[i-1].par != 0 && under(nodes[i-1].par, x)) }
	create := func(kind string, p int, lazy bool) {
		type made struct {
			n   *mtNode
			err error
		}
		ch := make(chan made, 1)
		pb := pubOf(p)
		go func() {
			n := &mtNode{kind: kind, par: p, lazy: lazy}
			var err error
			if kind == "sub" {
				var s kcache.Subscription
				s, err = pb.Subscribe()
				if err == nil {
					n.sub, n.done = s, s.Done()
				}
			} else {
				var c kcache.Controller
				c, err = pb.Clone()
				if err == nil {
					n.pub, n.done = c, c.Done()
				}
			}
			ch <- made{n, err}
		}()
		select {
		case m := <-ch:
			if m.err != nil {
				errs++
				return
			}
			nodes = append(nodes, m.n)
		case <-time.After(2 * time.Second):
			errs += 100 // a constructor that does not return
		}
	}
	// every API call of the replay runs under a watchdog: a call that does not return is left behind and the
	// observations go on (they then differ from the prediction)
	guarded := func(fn func()) {
		ret := make(chan struct{})
		go func() { fn(); close(ret) }()
		select {
		case <-ret:
		case <-time.After(2 * time.Second):
		}
	}
	closeNode := func(x int) {
		n := nodes[x-1]
		if n.sub != nil {
			guarded(n.sub.Close)
		} else {
			guarded(n.pub.Close)
		}
		for i := range nodes {
			if under(i+1, x) {
				nodes[i].dead = true
			}
		}
	}
	var hist []string
	for si, s := range b.Stim {
		final := si == len(b.Stim)-1
		switch s {
		case "EM":
			if !rootDead {
				emitted++
				ev := kcache.NewEvent(kcache.EventTypeUpdate, mkPod("a", emitted, 0))
				guarded(func() { psub.Send(ev) })
			}
		case "SB0":
			create("sub", 0, false)
		case "SB1":
			create("sub", lastClone(), true)
		case "CL0":
			create("clone", 0, false)
		case "CL1":
			create("clone", lastClone(), false)
		case "CS", "CSF":
			x := 0
			for i := range nodes {
				if !nodes[i].dead {
					x = i + 1
					if s == "CSF" {
						break
					}
				}
			}
			if x != 0 {
				closeNode(x)
			}
		case "CR":
			if !rootDead {
				rootDead = true
				guarded(psub.Close)
				for i := range nodes {
					nodes[i].dead = true
				}
			}
		}
		if !quiesce(theTracer, 3*time.Second) {
			quiet = false
		}
		// drain every leaf, then record what is observable
		var ns []string
		for _, n := range nodes {
			if n.sub != nil && (!n.lazy || final) {
				for drained := false; !drained; {
					select {
					case e, ok := <-n.sub.Events():
						if !ok {
							drained = true
							break
						}
						n.log = append(n.log, fmt.Sprint(verModel(e.Resource().GetResourceVersion())))
					default:
						drained = true
					}
				}
			}
			ns = append(ns, fmt.Sprintf(`{"kind":%q,"done":%v,"log":[%s]}`, n.kind, isClosed(n.done), strings.Join(n.log, ",")))
		}
		hist = append(hist, fmt.Sprintf(`{"nodes":[%s],"errs":%d}`, strings.Join(ns, ","), errs))
	}
	w.write2(fmt.Sprintf(`{"k":"modestree","stim":%s,"quiet":%v,"pred":%s,"obs":[%s]}`, jsStrs(b.Stim), quiet, string(b.Hist), strings.Join(hist, ",")))
	guarded(func() { psub.Close(); root.Close() })
	cancel()
	for _, n := range nodes {
		select {
		case <-n.done:
		case <-time.After(2 * time.Second):
		}
	}
	<-pcache.Done()
}
