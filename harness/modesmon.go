package main

// Mode S (spec -> code) for the monitor: replays every stimulus order that TLC
// enumerated from spec/ModeSMon.tla on the real monitor over a driver-controlled
// subscription and publisher, with a quiescence barrier after each stimulus, and
// records the history of what was observable at each barrier next to the set of
// histories the specification allows.  trace/ModeSMonRecords.tla compares.

import (
	"bufio"
	"context"
	"encoding/json"
	"flag"
	"fmt"
	"os"
	"strings"
	"sync"
	"time"

	"github.com/boz/kcache"
	metav1 "k8s.io/apimachinery/pkg/apis/meta/v1"
)

func init() { commands["modesmon"] = modesMonMain }

type monBehaviour struct {
	Stim  []string          `json:"stim"`
	Preds []json.RawMessage `json:"preds"`
}

func modesMonMain(args []string) int {
	fs := flag.NewFlagSet("modesmon", flag.ExitOnError)
	in := fs.String("in", "", "orders with their predicted histories (ndjson)")
	out := fs.String("out", "", "output ndjson file")
	shards := fs.Int("shards", 1, "")
	shard := fs.Int("shard", 0, "")
	repeat := fs.Int("repeat", 1, "replays per order (the monitor's select is a real choice)")
	noupd := fs.Bool("noupdate", false, "the handler is made by the library's HandlerBuilder without an update callback")
	fs.Parse(args)
	theTracer.End()
	f, err := os.Open(*in)
	if err != nil {
		fmt.Fprintln(os.Stderr, err)
		return 2
	}
	w := newNDWriter(*out)
	sc := bufio.NewScanner(f)
	sc.Buffer(make([]byte, 1<<20), 1<<24)
	n, i := 0, 0
	for sc.Scan() {
		i++
		if i%*shards != *shard {
			continue
		}
		var b monBehaviour
		if err := json.Unmarshal(sc.Bytes(), &b); err != nil {
			fmt.Fprintln(os.Stderr, "bad behaviour line:", err)
			return 2
		}
		for r := 0; r < *repeat; r++ {
			replayMonBehaviour(w, b, *noupd)
			n++
		}
	}
	w.close()
	fmt.Printf("modesmon: replays=%d lines=%d\n", n, w.n)
	return 0
}

// blockingHandler records every callback at entry and then waits for the driver's release.
type blockingHandler struct {
	mu     sync.Mutex
	cblog  []int
	active int
	rel    chan struct{}
}

func (h *blockingHandler) enter(n int) {
	h.mu.Lock()
	h.cblog = append(h.cblog, n)
	h.active++
	h.mu.Unlock()
	<-h.rel
	h.mu.Lock()
	h.active--
	h.mu.Unlock()
}

func (h *blockingHandler) OnInitialize(l []metav1.Object) {
	// the listing of the (fixed) parent cache: exactly the object a; anything else is recorded as -1
	if len(l) == 1 && l[0] != nil && l[0].GetName() == "a" {
		h.enter(0)
	} else {
		h.enter(-1)
	}
}
func (h *blockingHandler) OnCreate(o metav1.Object) { h.enter(-2) }
func (h *blockingHandler) OnUpdate(o metav1.Object) { h.enter(verModel(o.GetResourceVersion()) - 1) }
func (h *blockingHandler) OnDelete(o metav1.Object) { h.enter(-3) }

func replayMonBehaviour(w *ndWriter, b monBehaviour, noupd bool) {
	log := newLog(nil)
	ctx, cancel := context.WithCancel(context.Background())
	pcache := kcache.VerifNewCache(ctx, log, nil, mkFilter("null"))
	pcache.Update(kcache.NewEvent(kcache.EventTypeCreate, mkPod("a", 1, 0)))
	readych := make(chan struct{})
	psub := kcache.VerifNewSubscription(log, nil, readych, pcache.Reader())
	pub := kcache.VerifNewPublisher(log, psub)
	h := &blockingHandler{rel: make(chan struct{})}
	var hh kcache.Handler = h
	if noupd {
		// no update callback registered: update events are consumed silently, no other callback stands in for it
		hh = kcache.BuildHandler().OnInitialize(h.OnInitialize).OnCreate(h.OnCreate).OnDelete(h.OnDelete).Create()
	}
	mon, err := kcache.NewMonitor(pub, hh)
	if err != nil {
		w.write2(fmt.Sprintf(`{"k":"modesmon.error","err":%q}`, err.Error()))
		cancel()
		return
	}
	ready, closed := false, false
	published := 0
	quiet := true
	var hist []string
	for _, s := range b.Stim {
		switch s {
		case "SR":
			if !ready {
				ready = true
				close(readych)
			}
		case "PB":
			if ready && !closed {
				published++
				psub.Send(kcache.NewEvent(kcache.EventTypeUpdate, mkPod("a", 1+published, 0)))
			}
		case "SD":
			if !closed {
				closed = true
				// Close() must return whatever the handler is doing; a call that does not is left behind
				// (the history then shows what the specification does not allow)
				ret := make(chan struct{})
				go func() { mon.Close(); close(ret) }()
				select {
				case <-ret:
				case <-time.After(2 * time.Second):
				}
			}
		case "RL":
			select {
			case h.rel <- struct{}{}:
			default:
			}
		}
		if !quiesce(theTracer, 3*time.Second) {
			quiet = false
		}
		h.mu.Lock()
		var cb []string
		for _, x := range h.cblog {
			cb = append(cb, fmt.Sprint(x))
		}
		act := h.active
		h.mu.Unlock()
		hist = append(hist, fmt.Sprintf(`{"cb":[%s],"active":%v,"done":%v,"nactive":%d}`, strings.Join(cb, ","), act > 0, isClosed(mon.Done()), act))
	}
	var preds []string
	for _, p := range b.Preds {
		preds = append(preds, string(p))
	}
	w.write2(fmt.Sprintf(`{"k":"modesmon","stim":%s,"quiet":%v,"preds":[%s],"obs":[%s]}`, jsStrs(b.Stim), quiet, strings.Join(preds, ","), strings.Join(hist, ",")))
	// tear down: let every callback return, stop everything
	close(h.rel)
	td := make(chan struct{})
	go func() { mon.Close(); psub.Close(); pub.Close(); close(td) }()
	select {
	case <-td:
	case <-time.After(3 * time.Second):
	}
	cancel()
	select {
	case <-mon.Done():
	case <-time.After(2 * time.Second):
	}
	<-pcache.Done()
}
