package main

// C17 / C18 / C19: the filter algebra.  Terms are data; for each term the real
// filter is built with the library's constructors, Accept() is evaluated on
// every object of the universe (twice), FiltersEqual is evaluated against a
// second construction of the same term, against permuted sources, and against
// every other term.  spec/trace/FilterRecords.tla judges the records.

import (
	"flag"
	"fmt"
	"math/rand"
	"sort"
	"strings"

	"github.com/boz/kcache/filter"
	"github.com/boz/kcache/nsname"
	"github.com/boz/kcache/types/daemonset"
	"github.com/boz/kcache/types/deployment"
	"github.com/boz/kcache/types/event"
	"github.com/boz/kcache/types/ingress"
	"github.com/boz/kcache/types/job"
	"github.com/boz/kcache/types/pod"
	"github.com/boz/kcache/types/replicaset"
	"github.com/boz/kcache/types/replicationcontroller"
	"github.com/boz/kcache/types/service"
	"github.com/boz/kcache/types/statefulset"
	appsv1 "k8s.io/api/apps/v1"
	batchv1 "k8s.io/api/batch/v1"
	corev1 "k8s.io/api/core/v1"
	netv1beta1 "k8s.io/api/networking/v1beta1"
	metav1 "k8s.io/apimachinery/pkg/apis/meta/v1"
	"k8s.io/apimachinery/pkg/labels"
	"k8s.io/apimachinery/pkg/selection"
)

func init() { commands["filters"] = filtersMain }

type pair [2]string

type Req struct {
	Key  string
	Oper string
	Vals []string
}

type Sel struct {
	Nil bool
	ML  []pair
	ME  []Req
}

type W struct { // workload
	NS, Name string
	Sel      Sel
	Tmpl     []pair
	Zero     bool // spec.replicas == 0 (scaled down): ownership does not depend on it
}

type Ing struct {
	NS       string
	Backends []string
	OneRule  bool // the path backends are several paths of ONE rule (instead of one rule each)
}

type Term struct {
	ViaObject bool // involved: build through InvolvedObjectFilter(object) instead of InvolvedFilter(kind, ns, name)
	Op        string
	C         *Term
	Cs        []*Term
	IDs       []pair
	M         []pair
	Sel       Sel
	Reqs      []Req
	ID        string
	Names     []string
	Kind      string
	NS        string
	Name      string
	Target    []pair
	Srcs      []W
	Ings      []Ing
}

// ---------------------------------------------------------------- JSON

func jsPairs(m []pair) string {
	var b strings.Builder
	b.WriteByte('[')
	for i, p := range m {
		if i > 0 {
			b.WriteByte(',')
		}
		fmt.Fprintf(&b, "[%q,%q]", p[0], p[1])
	}
	b.WriteByte(']')
	return b.String()
}

func jsStrs(s []string) string {
	var b strings.Builder
	b.WriteByte('[')
	for i, x := range s {
		if i > 0 {
			b.WriteByte(',')
		}
		fmt.Fprintf(&b, "%q", x)
	}
	b.WriteByte(']')
	return b.String()
}

func jsReqs(rs []Req) string {
	var b strings.Builder
	b.WriteByte('[')
	for i, r := range rs {
		if i > 0 {
			b.WriteByte(',')
		}
		fmt.Fprintf(&b, `{"key":%q,"oper":%q,"vals":%s}`, r.Key, r.Oper, jsStrs(r.Vals))
	}
	b.WriteByte(']')
	return b.String()
}

func jsSel(s Sel) string {
	return fmt.Sprintf(`{"nil":%v,"ml":%s,"me":%s}`, s.Nil, jsPairs(s.ML), jsReqs(s.ME))
}

func (t *Term) JSON() string {
	switch t.Op {
	case "null", "all":
		return fmt.Sprintf(`{"op":%q}`, t.Op)
	case "not":
		return fmt.Sprintf(`{"op":"not","c":%s}`, t.C.JSON())
	case "and", "or":
		var cs []string
		for _, c := range t.Cs {
			cs = append(cs, c.JSON())
		}
		return fmt.Sprintf(`{"op":%q,"cs":[%s]}`, t.Op, strings.Join(cs, ","))
	case "nsname":
		return fmt.Sprintf(`{"op":"nsname","ids":%s}`, jsPairs(t.IDs))
	case "labels":
		return fmt.Sprintf(`{"op":"labels","m":%s}`, jsPairs(t.M))
	case "lsel":
		return fmt.Sprintf(`{"op":"lsel","sel":%s}`, jsSel(t.Sel))
	case "selector":
		return fmt.Sprintf(`{"op":"selector","reqs":%s}`, jsReqs(t.Reqs))
	case "fn":
		return fmt.Sprintf(`{"op":"fn","id":%q}`, t.ID)
	case "node":
		return fmt.Sprintf(`{"op":"node","names":%s}`, jsStrs(t.Names))
	case "involved":
		return fmt.Sprintf(`{"op":"involved","kind":%q,"ns":%q,"name":%q}`, t.Kind, t.NS, t.Name)
	case "selmatch":
		return fmt.Sprintf(`{"op":"selmatch","target":%s}`, jsPairs(t.Target))
	case "pods":
		var ws []string
		for _, w := range t.Srcs {
			ws = append(ws, fmt.Sprintf(`{"ns":%q,"name":%q,"sel":%s,"tmpl":%s}`, w.NS, w.Name, jsSel(w.Sel), jsPairs(w.Tmpl)))
		}
		return fmt.Sprintf(`{"op":"pods","kind":%q,"srcs":[%s]}`, t.Kind, strings.Join(ws, ","))
	case "services":
		var is []string
		for _, g := range t.Ings {
			is = append(is, fmt.Sprintf(`{"ns":%q,"backends":%s}`, g.NS, jsStrs(g.Backends)))
		}
		return fmt.Sprintf(`{"op":"services","ings":[%s]}`, strings.Join(is, ","))
	}
	panic("json: unknown op " + t.Op)
}

// ---------------------------------------------------------------- real filters

func mapOf(m []pair) map[string]string {
	if m == nil {
		return nil
	}
	r := map[string]string{}
	for _, p := range m {
		r[p[0]] = p[1]
	}
	return r
}

func operOf(o string) (metav1.LabelSelectorOperator, selection.Operator) {
	switch o {
	case "In":
		return metav1.LabelSelectorOpIn, selection.In
	case "NotIn":
		return metav1.LabelSelectorOpNotIn, selection.NotIn
	case "Exists":
		return metav1.LabelSelectorOpExists, selection.Exists
	case "DoesNotExist":
		return metav1.LabelSelectorOpDoesNotExist, selection.DoesNotExist
	}
	panic("oper " + o)
}

func lselOf(s Sel) *metav1.LabelSelector {
	if s.Nil {
		return nil
	}
	ls := &metav1.LabelSelector{}
	if len(s.ML) > 0 {
		ls.MatchLabels = mapOf(s.ML)
	}
	for _, r := range s.ME {
		op, _ := operOf(r.Oper)
		ls.MatchExpressions = append(ls.MatchExpressions, metav1.LabelSelectorRequirement{Key: r.Key, Operator: op, Values: append([]string(nil), r.Vals...)})
	}
	return ls
}

// closures created by ONE function literal with different captured values
//
//go:noinline
func labelIs(key, val string) func(metav1.Object) bool {
	return func(o metav1.Object) bool { return o.GetLabels()[key] == val }
}

var fnTable = map[string]func(metav1.Object) bool{
	"cx1": labelIs("x", "1"),
	"cx2": labelIs("x", "2"),
	"x1":  func(o metav1.Object) bool { return o.GetLabels()["x"] == "1" },
	"x1b": func(o metav1.Object) bool { v, ok := o.GetLabels()["x"]; return ok && v == "1" },
	"n1":  func(o metav1.Object) bool { return o.GetNamespace() == "n1" },
}

func replicasOf(w W) *int32 {
	if w.Zero {
		z := int32(0)
		return &z
	}
	return nil
}

var (
	arena        = make([]filter.Filter, 0, 1<<14)
	arenaTerms   []*Term
	primaryBuild bool
	lastStart    int // window of the most recent composite that was laid out in the arena
	lastLen      int
	scratchIDs   = make([]nsname.NSName, 0, 8)
	scratchMap   = map[string]string{}
	scratchNames = make([]string, 0, 8)
)

func om(w W) metav1.ObjectMeta { return metav1.ObjectMeta{Namespace: w.NS, Name: w.Name} }

func tmplOf(w W) corev1.PodTemplateSpec {
	return corev1.PodTemplateSpec{ObjectMeta: metav1.ObjectMeta{Labels: mapOf(w.Tmpl)}}
}

// Build constructs the real filter for the term with the library's own constructors.
func (t *Term) Build() filter.Filter {
	switch t.Op {
	case "null":
		return filter.Null()
	case "all":
		return filter.All()
	case "not":
		return filter.Not(t.C.Build())
	case "and", "or":
		var cs []filter.Filter
		for _, c := range t.Cs {
			cs = append(cs, c.Build())
		}
		// The children of successive composites live in one backing array, and a composite whose first child is
		// the previous composite's last child is given an overlapping window of it (all[:2], all[1:]): a filter
		// only reads the slice it was given.
		if !primaryBuild {
			// rebuilds and permutations (equality checks) get plain argument slices of their own
			if t.Op == "and" {
				return filter.And(cs...)
			}
			return filter.Or(cs...)
		}
		var window []filter.Filter
		n := len(arena)
		if n+len(cs) > cap(arena) {
			arena, arenaTerms, n = make([]filter.Filter, 0, 1<<14), nil, 0
			lastStart, lastLen = 0, 0
		}
		samePrefix := func(k int) bool { // the first k children are the terms at the start of the previous window
			if k > len(t.Cs) || lastStart+k > n {
				return false
			}
			for i := 0; i < k; i++ {
				if arenaTerms[lastStart+i] != t.Cs[i] {
					return false
				}
			}
			return k > 0
		}
		if n > 0 && lastLen > 0 && lastStart+lastLen == n && len(cs) > lastLen && samePrefix(lastLen) {
			// the previous composite's children plus more: views all[:k] and all[:m] of one growing slice
			arena = append(arena, cs[lastLen:]...)
			arenaTerms = append(arenaTerms, t.Cs[lastLen:]...)
			window = arena[lastStart : lastStart+len(cs)]
		} else if n > 0 && lastLen > len(cs) && len(cs) > 0 && samePrefix(len(cs)) {
			// a shorter view from the same start
			window = arena[lastStart : lastStart+len(cs)]
		} else if n > 0 && len(cs) >= 2 && arenaTerms[n-1] == t.Cs[0] {
			arena = append(arena, cs[1:]...)
			arenaTerms = append(arenaTerms, t.Cs[1:]...)
			window = arena[n-1 : n-1+len(cs)]
			lastStart, lastLen = n-1, len(cs)
		} else {
			arena = append(arena, cs...)
			arenaTerms = append(arenaTerms, t.Cs...)
			window = arena[n : n+len(cs)]
			lastStart, lastLen = n, len(cs)
		}
		if t.Op == "and" {
			return filter.And(window...)
		}
		return filter.Or(window...)
	case "nsname":
		// the caller's slice is reused for the next filter: a filter must not alias its arguments
		scratchIDs = scratchIDs[:0]
		for _, p := range t.IDs {
			scratchIDs = append(scratchIDs, nsname.New(p[0], p[1]))
		}
		return filter.NSName(scratchIDs...)
	case "labels":
		for k := range scratchMap {
			delete(scratchMap, k)
		}
		for _, p := range t.M {
			scratchMap[p[0]] = p[1]
		}
		f := filter.Labels(scratchMap)
		return f
	case "lsel":
		return filter.LabelSelector(lselOf(t.Sel))
	case "selector":
		s := labels.NewSelector()
		for _, r := range t.Reqs {
			_, op := operOf(r.Oper)
			rq, err := labels.NewRequirement(r.Key, op, append([]string(nil), r.Vals...))
			if err != nil {
				panic(err)
			}
			s = s.Add(*rq)
		}
		return filter.Selector(s)
	case "fn":
		return filter.FN(fnTable[t.ID])
	case "node":
		scratchNames = append(scratchNames[:0], t.Names...)
		return pod.NodeFilter(scratchNames...)
	case "involved":
		if t.ViaObject {
			// the object form: kind from the object's TypeMeta, namespace and name from its metadata
			if t.Kind == "Node" {
				return event.InvolvedObjectFilter(&corev1.Node{TypeMeta: metav1.TypeMeta{Kind: "Node"}, ObjectMeta: metav1.ObjectMeta{Namespace: t.NS, Name: t.Name}})
			}
			return event.InvolvedObjectFilter(&corev1.Pod{TypeMeta: metav1.TypeMeta{Kind: t.Kind}, ObjectMeta: metav1.ObjectMeta{Namespace: t.NS, Name: t.Name}})
		}
		return event.InvolvedFilter(t.Kind, t.NS, t.Name)
	case "selmatch":
		return service.SelectorMatchFilter(mapOf(t.Target))
	case "services":
		var ings []*netv1beta1.Ingress
		for i, g := range t.Ings {
			ing := &netv1beta1.Ingress{ObjectMeta: metav1.ObjectMeta{Namespace: g.NS, Name: fmt.Sprintf("ing%d", i)}}
			var paths []netv1beta1.HTTPIngressPath
			for j, b := range g.Backends {
				if j == 0 && !g.OneRule {
					ing.Spec.Backend = &netv1beta1.IngressBackend{ServiceName: b}
					continue
				}
				if g.OneRule {
					paths = append(paths, netv1beta1.HTTPIngressPath{Backend: netv1beta1.IngressBackend{ServiceName: b}})
					continue
				}
				ing.Spec.Rules = append(ing.Spec.Rules, netv1beta1.IngressRule{IngressRuleValue: netv1beta1.IngressRuleValue{
					HTTP: &netv1beta1.HTTPIngressRuleValue{Paths: []netv1beta1.HTTPIngressPath{{Backend: netv1beta1.IngressBackend{ServiceName: b}}}}}})
			}
			if len(paths) > 0 {
				ing.Spec.Rules = append(ing.Spec.Rules, netv1beta1.IngressRule{IngressRuleValue: netv1beta1.IngressRuleValue{HTTP: &netv1beta1.HTTPIngressRuleValue{Paths: paths}}})
			}
			ings = append(ings, ing)
		}
		return ingress.ServicesFilter(ings...)
	case "pods":
		switch t.Kind {
		case "service":
			var xs []*corev1.Service
			for _, w := range t.Srcs {
				xs = append(xs, &corev1.Service{ObjectMeta: om(w), Spec: corev1.ServiceSpec{Selector: mapOf(w.Sel.ML)}})
			}
			return service.PodsFilter(xs...)
		case "rc":
			var xs []*corev1.ReplicationController
			for _, w := range t.Srcs {
				tm := tmplOf(w)
				xs = append(xs, &corev1.ReplicationController{ObjectMeta: om(w), Spec: corev1.ReplicationControllerSpec{Replicas: replicasOf(w), Selector: mapOf(w.Sel.ML), Template: &tm}})
			}
			return replicationcontroller.PodsFilter(xs...)
		case "rs":
			var xs []*appsv1.ReplicaSet
			for _, w := range t.Srcs {
				xs = append(xs, &appsv1.ReplicaSet{ObjectMeta: om(w), Spec: appsv1.ReplicaSetSpec{Replicas: replicasOf(w), Selector: lselOf(w.Sel), Template: tmplOf(w)}})
			}
			return replicaset.PodsFilter(xs...)
		case "deployment":
			var xs []*appsv1.Deployment
			for _, w := range t.Srcs {
				xs = append(xs, &appsv1.Deployment{ObjectMeta: om(w), Spec: appsv1.DeploymentSpec{Replicas: replicasOf(w), Selector: lselOf(w.Sel), Template: tmplOf(w)}})
			}
			return deployment.PodsFilter(xs...)
		case "daemonset":
			var xs []*appsv1.DaemonSet
			for _, w := range t.Srcs {
				xs = append(xs, &appsv1.DaemonSet{ObjectMeta: om(w), Spec: appsv1.DaemonSetSpec{Selector: lselOf(w.Sel), Template: tmplOf(w)}})
			}
			return daemonset.PodsFilter(xs...)
		case "statefulset":
			var xs []*appsv1.StatefulSet
			for _, w := range t.Srcs {
				xs = append(xs, &appsv1.StatefulSet{ObjectMeta: om(w), Spec: appsv1.StatefulSetSpec{Replicas: replicasOf(w), Selector: lselOf(w.Sel), Template: tmplOf(w)}})
			}
			return statefulset.PodsFilter(xs...)
		case "job":
			var xs []*batchv1.Job
			for _, w := range t.Srcs {
				xs = append(xs, &batchv1.Job{ObjectMeta: om(w), Spec: batchv1.JobSpec{Selector: lselOf(w.Sel), Template: tmplOf(w)}})
			}
			return job.PodsFilter(xs...)
		}
	}
	panic("build: unknown op " + t.Op + "/" + t.Kind)
}

// Permuted returns the term with the order of its workload sources reversed / rotated
// (nil if the term has fewer than two sources anywhere).
func (t *Term) Permuted(rot bool) *Term {
	c := *t
	changed := false
	switch t.Op {
	case "pods":
		if len(t.Srcs) >= 2 {
			c.Srcs = append([]W(nil), t.Srcs...)
			if rot {
				c.Srcs = append(c.Srcs[1:], c.Srcs[0])
			} else {
				for i, j := 0, len(c.Srcs)-1; i < j; i, j = i+1, j-1 {
					c.Srcs[i], c.Srcs[j] = c.Srcs[j], c.Srcs[i]
				}
			}
			changed = true
		}
	case "services":
		if len(t.Ings) >= 2 {
			c.Ings = append([]Ing(nil), t.Ings...)
			if rot {
				c.Ings = append(c.Ings[1:], c.Ings[0])
			} else {
				for i, j := 0, len(c.Ings)-1; i < j; i, j = i+1, j-1 {
					c.Ings[i], c.Ings[j] = c.Ings[j], c.Ings[i]
				}
			}
			changed = true
		}
	case "not":
		if p := t.C.Permuted(rot); p != nil {
			c.C = p
			changed = true
		}
	case "and", "or":
		c.Cs = append([]*Term(nil), t.Cs...)
		for i, x := range t.Cs {
			if p := x.Permuted(rot); p != nil {
				c.Cs[i] = p
				changed = true
			}
		}
	}
	if !changed {
		return nil
	}
	return &c
}

// ---------------------------------------------------------------- objects

type FObj struct {
	Kind, NS, Name string
	Labels         []pair
	Node           string
	Sel            []pair
	Inv            [3]string
}

func (o FObj) JSON() string {
	return fmt.Sprintf(`{"kind":%q,"ns":%q,"name":%q,"labels":%s,"node":%q,"sel":%s,"inv":{"kind":%q,"ns":%q,"name":%q}}`,
		o.Kind, o.NS, o.Name, jsPairs(o.Labels), o.Node, jsPairs(o.Sel), o.Inv[0], o.Inv[1], o.Inv[2])
}

func (o FObj) Build() metav1.Object {
	m := metav1.ObjectMeta{Namespace: o.NS, Name: o.Name, Labels: mapOf(o.Labels), ResourceVersion: "1"}
	switch o.Kind {
	case "pod":
		return &corev1.Pod{ObjectMeta: m, Spec: corev1.PodSpec{NodeName: o.Node}}
	case "service":
		return &corev1.Service{ObjectMeta: m, Spec: corev1.ServiceSpec{Selector: mapOf(o.Sel)}}
	case "event":
		return &corev1.Event{ObjectMeta: m, InvolvedObject: corev1.ObjectReference{Kind: o.Inv[0], Namespace: o.Inv[1], Name: o.Inv[2]}}
	case "secret":
		return &corev1.Secret{ObjectMeta: m}
	}
	panic("object kind " + o.Kind)
}

func labelMaps(vals []string) [][]pair {
	var out [][]pair
	opts := append([]string{""}, vals...)
	for _, x := range opts {
		for _, y := range opts {
			var m []pair
			if x != "" {
				m = append(m, pair{"x", x})
			}
			if y != "" {
				m = append(m, pair{"y", y})
			}
			out = append(out, m)
		}
	}
	return out
}

func objectUniverse() []FObj {
	var objs []FObj
	nss := []string{"n1", "n2", "n3"}
	names := []string{"a", "b", "c"}
	for _, ns := range nss {
		for _, nm := range names {
			for _, lm := range labelMaps([]string{"1", "2", "3"}) {
				objs = append(objs, FObj{Kind: "pod", NS: ns, Name: nm, Labels: lm})
			}
		}
	}
	// typed extras
	for _, node := range []string{"w1", "w2", "w3"} {
		objs = append(objs, FObj{Kind: "pod", NS: "n1", Name: "a", Labels: []pair{{"x", "1"}}, Node: node})
	}
	for _, ns := range []string{"n1", "n2"} {
		for _, nm := range names {
			for _, sel := range [][]pair{nil, {{"x", "1"}}, {{"x", "1"}, {"y", "1"}}, {{"y", "2"}}} {
				objs = append(objs, FObj{Kind: "service", NS: ns, Name: nm, Labels: []pair{{"x", "1"}}, Sel: sel})
			}
		}
	}
	objs = append(objs, FObj{Kind: "pod", NS: "n1", Name: "a", Labels: []pair{{"x", ""}}}, FObj{Kind: "pod", NS: "n1", Name: "b", Labels: []pair{{"x", ""}, {"y", "1"}}},
		FObj{Kind: "event", NS: "n1", Name: "ev-lower", Inv: [3]string{"pod", "n1", "a"}})
	for _, nn := range [][2]string{{"n2", "n1"}, {"n1", "n1"}, {"a", "b"}} {
		objs = append(objs, FObj{Kind: "pod", NS: nn[0], Name: nn[1], Labels: []pair{{"x", "1"}}})
	}
	for _, inv := range [][3]string{{"Pod", "n1", "a"}, {"Pod", "n2", "a"}, {"Service", "n1", "a"}, {"Pod", "n1", "b"}, {"Node", "", "w1"}, {"Node", "default", "w1"}, {"Pod", "default", "a"}} {
		objs = append(objs, FObj{Kind: "event", NS: inv[1], Name: "ev-" + inv[2], Inv: inv})
	}
	objs = append(objs, FObj{Kind: "secret", NS: "n1", Name: "a", Labels: []pair{{"x", "1"}, {"y", "1"}}})
	// empty strings are values like any other: selectors with empty label values, an event about an object of unknown kind
	objs = append(objs, FObj{Kind: "service", NS: "n1", Name: "ex", Labels: []pair{{"x", "1"}}, Sel: []pair{{"x", ""}}},
		FObj{Kind: "service", NS: "n1", Name: "ey", Labels: []pair{{"x", "1"}}, Sel: []pair{{"y", ""}}},
		FObj{Kind: "event", NS: "n1", Name: "ev-nokind", Inv: [3]string{"", "n1", "a"}})
	return objs
}

// ---------------------------------------------------------------- term universe

func leafUniverse() (all []*Term, core []*Term) {
	add := func(t *Term, isCore bool) {
		all = append(all, t)
		if isCore {
			core = append(core, t)
		}
	}
	add(&Term{Op: "null"}, true)
	add(&Term{Op: "all"}, true)
	for i, ids := range [][]pair{
		{{"n1", "a"}}, {{"n2", "b"}}, {{"n1", ""}}, {{"", "a"}}, {{"n1", "a"}, {"n2", "b"}}, {{"n2", "b"}, {"n1", "a"}},
		{{"n1", ""}, {"", "b"}}, {{"", "b"}, {"n1", ""}}, {{"n1", "a"}, {"n1", ""}}, {}, {{"n1", "a"}, {"n1", "b"}}, {{"n2", ""}, {"", "c"}, {"n1", "a"}},
		{{"n1", ""}, {"", "n1"}}, {{"", "n1"}, {"n1", ""}}, {{"a", ""}, {"", "a"}, {"n1", "a"}}, {{"n2", ""}}, {{"", "b"}},
	} {
		add(&Term{Op: "nsname", IDs: ids}, i == 0 || i == 2 || i == 6)
	}
	for i, m := range [][]pair{{}, {{"x", "1"}}, {{"x", "2"}}, {{"y", "1"}}, {{"x", "1"}, {"y", "1"}}, {{"x", "1"}, {"y", "2"}}, {{"x", ""}}, {{"x", ""}, {"y", "1"}}} {
		add(&Term{Op: "labels", M: m}, i == 1 || i == 4)
	}
	for i, s := range []Sel{
		{Nil: true}, {}, {ML: []pair{{"x", "1"}}},
		{ME: []Req{{"x", "In", []string{"1", "2"}}}}, {ME: []Req{{"x", "NotIn", []string{"1"}}}},
		{ME: []Req{{"y", "Exists", nil}}}, {ME: []Req{{"y", "DoesNotExist", nil}}},
		{ML: []pair{{"x", "1"}}, ME: []Req{{"y", "NotIn", []string{"1"}}}}, {ME: []Req{{"x", "In", []string{"2", "1"}}}},
		{ME: []Req{{"x", "NotIn", []string{"1", "3"}}, {"y", "Exists", nil}}},
		{ML: []pair{{"x", "1"}}, ME: []Req{{"x", "Exists", nil}}}, {ME: []Req{{"x", "Exists", nil}}},
		{ME: []Req{{"x", "In", []string{"1", "2"}}, {"x", "NotIn", []string{"2"}}}}, {ME: []Req{{"x", "NotIn", []string{"2"}}}},
	} {
		add(&Term{Op: "lsel", Sel: s}, i == 3 || i == 4 || i == 6)
	}
	for i, rs := range [][]Req{{{"x", "In", []string{"1"}}}, {{"x", "Exists", nil}, {"y", "NotIn", []string{"2"}}}, {}} {
		add(&Term{Op: "selector", Reqs: rs}, i == 1)
	}
	for i, id := range []string{"x1", "x1b", "n1", "cx1", "cx2"} {
		add(&Term{Op: "fn", ID: id}, i == 0 || i >= 2)
	}
	for i, n := range [][]string{{"w1"}, {"w1", "w2"}, {"w2", "w1"}, {}, {""}, {"w1,w2"}, {"w1", ""}, {"w1", "w2", "w1"}} {
		add(&Term{Op: "node", Names: n}, i == 1)
	}
	for i, v := range [][3]string{{"Pod", "n1", "a"}, {"Pod", "n2", "a"}, {"Service", "n1", "a"}, {"pod", "n1", "a"}, {"", "n1", "a"}, {"Pod", "", "a"}, {"Pod", "n1", ""}} {
		add(&Term{Op: "involved", Kind: v[0], NS: v[1], Name: v[2]}, i == 0)
	}
	for _, v := range [][3]string{{"Node", "", "w1"}, {"Pod", "n1", "a"}, {"Pod", "default", "a"}} {
		add(&Term{Op: "involved", Kind: v[0], NS: v[1], Name: v[2], ViaObject: true}, false)
	}
	for i, m := range [][]pair{{{"x", "1"}}, {{"x", "1"}, {"y", "1"}}, {}, {{"x", ""}}, {{"y", ""}}, {{"x", ""}, {"y", "1"}}, {{"y", "1"}, {"x", "1"}}} {
		add(&Term{Op: "selmatch", Target: m}, i == 1)
	}
	w1 := W{NS: "n1", Name: "w1", Sel: Sel{ML: []pair{{"x", "1"}}}, Tmpl: []pair{{"x", "1"}}}
	w2 := W{NS: "n2", Name: "w1", Sel: Sel{ML: []pair{{"y", "1"}}}, Tmpl: []pair{{"y", "1"}}}
	w3 := W{NS: "n1", Name: "w3", Sel: Sel{Nil: true}, Tmpl: []pair{{"x", "2"}}}
	for _, k := range []string{"service", "rc", "rs", "deployment", "daemonset", "statefulset", "job"} {
		add(&Term{Op: "pods", Kind: k, Srcs: []W{w1}}, k == "service" || k == "rs")
		add(&Term{Op: "pods", Kind: k, Srcs: []W{w1, w2}}, false)
		add(&Term{Op: "pods", Kind: k, Srcs: []W{w2, w1}}, false)
		add(&Term{Op: "pods", Kind: k, Srcs: []W{w3, w1}}, false)
		add(&Term{Op: "pods", Kind: k, Srcs: []W{}}, false)
	}
	for i, g := range [][]Ing{{{NS: "n1", Backends: []string{"a"}}}, {{NS: "n1", Backends: []string{"a", "b"}}}, {{NS: "n1", Backends: []string{"a"}}, {NS: "n2", Backends: []string{"b"}}}, {{NS: "n2", Backends: []string{"b"}}, {NS: "n1", Backends: []string{"a"}}}, {{NS: "n1", Backends: []string{"a", "c"}, OneRule: true}}} {
		add(&Term{Op: "services", Ings: g}, i == 0)
	}
	return
}

func combTerms(tier string, rng *rand.Rand) []*Term {
	all, core := leafUniverse()
	bin := core
	if tier == "thorough" {
		// a larger set of leaves for the binary combinators
		bin = nil
		for i, t := range all {
			if i%2 == 0 || contains(core, t) {
				bin = append(bin, t)
			}
		}
	}
	var ts []*Term
	ts = append(ts, all...)
	ts = append(ts, &Term{Op: "and"}, &Term{Op: "or"})
	for _, l := range all {
		ts = append(ts, &Term{Op: "not", C: l}, &Term{Op: "and", Cs: []*Term{l}}, &Term{Op: "or", Cs: []*Term{l}})
	}
	for _, a := range bin {
		for _, b := range bin {
			ts = append(ts, &Term{Op: "and", Cs: []*Term{a, b}}, &Term{Op: "or", Cs: []*Term{a, b}})
		}
	}
	// double and triple negation; composites with an empty composite inside (the neutral element of the OTHER kind matters)
	for _, l := range all {
		ts = append(ts, &Term{Op: "not", C: &Term{Op: "not", C: l}}, &Term{Op: "not", C: &Term{Op: "not", C: &Term{Op: "not", C: l}}})
	}
	for _, l := range core {
		for _, o1 := range []string{"and", "or"} {
			for _, o2 := range []string{"and", "or"} {
				ts = append(ts, &Term{Op: o1, Cs: []*Term{l, {Op: o2}}}, &Term{Op: o1, Cs: []*Term{{Op: o2}, l}}, &Term{Op: o1, Cs: []*Term{{Op: o2}}})
			}
		}
	}
	// views of one growing slice: the same start, more and fewer children
	for _, op := range []string{"or", "and"} {
		for i := 0; i+3 < len(core); i++ {
			ts = append(ts, &Term{Op: op, Cs: []*Term{core[i], core[i+1]}}, &Term{Op: op, Cs: []*Term{core[i], core[i+1], core[i+2]}},
				&Term{Op: op, Cs: []*Term{core[i], core[i+1], core[i+2], core[i+3]}}, &Term{Op: op, Cs: []*Term{core[i]}})
		}
	}
	// chains: each composite starts with the child the previous one ended with (overlapping argument windows)
	for _, op := range []string{"or", "and"} {
		for i := 0; i+2 < len(core); i++ {
			ts = append(ts, &Term{Op: op, Cs: []*Term{core[i], core[i+1]}}, &Term{Op: op, Cs: []*Term{core[i+1], core[i+2]}},
				&Term{Op: op, Cs: []*Term{core[i+2], core[i], core[i+1]}}, &Term{Op: op, Cs: []*Term{core[i+1], core[i]}})
		}
	}
	// depth 3, systematically over the core leaves: nested composites on either side
	for _, a := range core {
		for _, b := range core {
			for _, c := range core[:6] {
				for _, o1 := range []string{"and", "or"} {
					for _, o2 := range []string{"and", "or"} {
						in := &Term{Op: o2, Cs: []*Term{a, b}}
						ts = append(ts, &Term{Op: o1, Cs: []*Term{in, c}}, &Term{Op: o1, Cs: []*Term{c, in}})
					}
				}
			}
		}
	}
	// depth 3 by seeded sampling
	n3 := 1500
	if tier == "thorough" {
		n3 = 15000
	}
	d2 := ts
	pick := func(s []*Term) *Term { return s[rng.Intn(len(s))] }
	for i := 0; i < n3; i++ {
		switch rng.Intn(4) {
		case 0:
			ts = append(ts, &Term{Op: "not", C: pick(d2)})
		case 1:
			ts = append(ts, &Term{Op: "and", Cs: []*Term{pick(d2), pick(all)}})
		case 2:
			ts = append(ts, &Term{Op: "or", Cs: []*Term{pick(all), pick(d2)}})
		default:
			ts = append(ts, &Term{Op: []string{"and", "or"}[rng.Intn(2)], Cs: []*Term{pick(d2), pick(d2), pick(all)}})
		}
	}
	return ts
}

func contains(s []*Term, t *Term) bool {
	for _, x := range s {
		if x == t {
			return true
		}
	}
	return false
}

// workloadTerms: C19, sets of up to maxSet workloads per kind over 2 namespaces.
func workloadTerms(tier string) []*Term {
	maxSet := 2
	if tier == "thorough" {
		maxSet = 3
	}
	lselOpts := []Sel{
		{Nil: true}, {}, {ML: []pair{{"x", "1"}}}, {ML: []pair{{"x", "1"}, {"y", "1"}}},
		{ME: []Req{{"x", "In", []string{"1", "2"}}}}, {ME: []Req{{"x", "NotIn", []string{"1"}}}}, {ME: []Req{{"y", "Exists", nil}}},
	}
	mapOpts := []Sel{{}, {ML: []pair{{"x", "1"}}}, {ML: []pair{{"x", "1"}, {"y", "1"}}}, {ML: []pair{{"y", "2"}}}}
	tmpls := [][]pair{{{"x", "2"}}, {{"y", "3"}}}
	var ts []*Term
	for _, k := range []string{"service", "rc", "rs", "deployment", "daemonset", "statefulset", "job"} {
		sels := lselOpts
		if k == "service" || k == "rc" {
			sels = mapOpts
		}
		var ws []W
		for _, ns := range []string{"n1", "n2"} {
			for si, s := range sels {
				for ti, tm := range tmpls {
					if k == "service" && ti > 0 {
						continue
					}
					// names: same name in both namespaces for some, distinct for others
					name := fmt.Sprintf("w%d%d", si, ti)
					ws = append(ws, W{NS: ns, Name: name, Sel: s, Tmpl: tm, Zero: (si+ti)%3 == 0})
				}
			}
		}
		if tier == "quick" && len(ws) > 16 {
			// every other workload, keeping both namespaces
			var r []W
			for i, w := range ws {
				if i%2 == 0 || w.Sel.Nil {
					r = append(r, w)
				}
			}
			ws = r
		}
		var rec func(start int, cur []W)
		rec = func(start int, cur []W) {
			if len(cur) > 0 {
				ts = append(ts, &Term{Op: "pods", Kind: k, Srcs: append([]W(nil), cur...)})
			}
			if len(cur) == maxSet {
				return
			}
			for i := start; i < len(ws); i++ {
				rec(i+1, append(cur, ws[i]))
			}
		}
		rec(0, nil)
	}
	// ingress -> services
	backs := [][]string{{"a"}, {"b"}, {"a", "b"}, {"c", "a"}, {}}
	var ings []Ing
	for _, ns := range []string{"n1", "n2"} {
		for _, b := range backs {
			ings = append(ings, Ing{NS: ns, Backends: b})
		}
	}
	for _, ns := range []string{"n1", "n2"} {
		ings = append(ings, Ing{NS: ns, Backends: []string{"a", "b"}, OneRule: true}, Ing{NS: ns, Backends: []string{"c", "b", "a"}, OneRule: true})
	}
	for i := range ings {
		ts = append(ts, &Term{Op: "services", Ings: []Ing{ings[i]}})
		for j := range ings {
			if i != j {
				ts = append(ts, &Term{Op: "services", Ings: []Ing{ings[i], ings[j]}})
			}
		}
	}
	// node / involved / selmatch leaves
	for _, n := range [][]string{{"w1"}, {"w2"}, {"w1", "w2"}, {"w3", "w1"}, {}, {""}, {"w1,w2"}, {"", "w2"}} {
		ts = append(ts, &Term{Op: "node", Names: n})
	}
	for _, v := range [][3]string{{"", "n1", "a"}, {"", "n2", "b"}, {"Pod", "", "a"}} {
		ts = append(ts, &Term{Op: "involved", Kind: v[0], NS: v[1], Name: v[2]})
	}
	for _, k := range []string{"Pod", "Service"} {
		for _, ns := range []string{"n1", "n2"} {
			for _, nm := range []string{"a", "b"} {
				ts = append(ts, &Term{Op: "involved", Kind: k, NS: ns, Name: nm})
			}
		}
	}
	for _, v := range [][3]string{{"Node", "", "w1"}, {"Node", "", "w2"}, {"Pod", "n1", "a"}, {"Pod", "default", "a"}, {"Service", "n1", "a"}} {
		ts = append(ts, &Term{Op: "involved", Kind: v[0], NS: v[1], Name: v[2], ViaObject: true})
	}
	for _, m := range [][]pair{{}, {{"x", "1"}}, {{"x", "1"}, {"y", "1"}}, {{"y", "2"}}, {{"x", "2"}, {"y", "2"}}, {{"x", ""}}, {{"y", ""}}, {{"x", ""}, {"y", "2"}}} {
		ts = append(ts, &Term{Op: "selmatch", Target: m})
	}
	return ts
}

// ---------------------------------------------------------------- driver

func filtersMain(args []string) int {
	fs := flag.NewFlagSet("filters", flag.ExitOnError)
	out := fs.String("out", "", "output ndjson file")
	mode := fs.String("mode", "comb", "comb (C17/C18 universe) | workload (C19 universe)")
	tier := fs.String("tier", "quick", "")
	seed := fs.Int64("seed", 1, "")
	noeq := fs.Bool("noeq", false, "skip the all-pairs FiltersEqual matrix")
	eqlimit := fs.Int("eqlimit", 0, "compare only the first N terms pairwise (0 = all)")
	fs.Parse(args)

	rng := rand.New(rand.NewSource(*seed))
	objs := objectUniverse()
	var terms []*Term
	if *mode == "comb" {
		terms = combTerms(*tier, rng)
	} else {
		terms = workloadTerms(*tier)
	}
	w := newNDWriter(*out)
	var ob []string
	real := make([]metav1.Object, len(objs))
	for i, o := range objs {
		ob = append(ob, o.JSON())
		real[i] = o.Build()
	}
	w.write2(fmt.Sprintf(`{"k":"objects","objs":[%s]}`, strings.Join(ob, ",")))

	built := make([]filter.Filter, len(terms))
	var accs []string
	var metas [][2]bool
	nacc := 0
	for i, t := range terms {
		primaryBuild = true
		f := t.Build()
		primaryBuild = false
		built[i] = f
		acc := make([]byte, 0, 2*len(real))
		for j, o := range real {
			if j > 0 {
				acc = append(acc, ',')
			}
			if f.Accept(o) {
				acc = append(acc, '1')
				nacc++
			} else {
				acc = append(acc, '0')
			}
		}
		rebuilt := filter.FiltersEqual(f, t.Build()) && filter.FiltersEqual(t.Build(), f)
		perm := true
		for _, rot := range []bool{false, true} {
			if p := t.Permuted(rot); p != nil {
				pf := p.Build()
				perm = perm && filter.FiltersEqual(f, pf) && filter.FiltersEqual(pf, f)
			}
		}
		if cf, ok := f.(filter.ComparableFilter); ok {
			// Equals must agree with FiltersEqual
			rebuilt = rebuilt && cf.Equals(t.Build())
		}
		accs = append(accs, string(acc))
		metas = append(metas, [2]bool{rebuilt, perm})
	}
	// second pass, after every other filter was built from the same (reused) argument containers and every
	// filter was evaluated once: Accept is a pure function of the object
	for i, t := range terms {
		f := built[i]
		acc2 := make([]byte, 0, 2*len(real))
		for j, o := range real {
			if j > 0 {
				acc2 = append(acc2, ',')
			}
			if f.Accept(o) {
				acc2 = append(acc2, '1')
			} else {
				acc2 = append(acc2, '0')
			}
		}
		w.write2(fmt.Sprintf(`{"k":"term","id":%d,"t":%s,"acc":[%s],"acc2":[%s],"rebuilt_eq":%v,"perm_eq":%v}`, i+1, t.JSON(), accs[i], acc2, metas[i][0], metas[i][1]))
	}
	neq := 0
	npairs := 0
	if !*noeq {
		lim := len(terms)
		if *eqlimit > 0 && *eqlimit < lim {
			lim = *eqlimit
		}
		for i := 0; i < lim; i++ {
			var js []string
			for j := 0; j < lim; j++ {
				if i == j {
					continue
				}
				npairs++
				if filter.FiltersEqual(built[i], built[j]) {
					js = append(js, fmt.Sprint(j+1))
					neq++
				}
			}
			if len(js) > 0 {
				w.write2(fmt.Sprintf(`{"k":"eq","i":%d,"js":[%s]}`, i+1, strings.Join(js, ",")))
			}
		}
	}
	w.close()
	ops := map[string]int{}
	for _, t := range terms {
		ops[t.Op]++
	}
	var ks []string
	for k, v := range ops {
		ks = append(ks, fmt.Sprintf("%s=%d", k, v))
	}
	sort.Strings(ks)
	fmt.Printf("filters mode=%s terms=%d objects=%d accept_evals=%d accepted=%d pairs=%d equal_pairs=%d ops:%s\n", *mode, len(terms), len(objs), 2*len(terms)*len(objs), nacc, npairs, neq, strings.Join(ks, ","))
	return 0
}

func (w *ndWriter) write2(line string) {
	w.mu.Lock()
	w.w.WriteString(line)
	w.w.WriteByte('\n')
	w.n++
	w.mu.Unlock()
}
