package main

// C01 / C02, part 2: random histories on long-lived real caches over a larger
// universe (4 keys, versions -1..9 and a non-numeric one, 3 label values, the
// whole filter family, lists up to length 5).  Judged by spec/trace/CacheWalk.tla
// against the spec's own running state.

import (
	"flag"
	"fmt"
	"math/rand"
	"strings"
	"sync/atomic"

	"github.com/boz/kcache"
)

func init() { commands["kwalk"] = kwalkMain }

func kwalkMain(args []string) int {
	fs := flag.NewFlagSet("kwalk", flag.ExitOnError)
	out := fs.String("out", "", "output ndjson file")
	seed := fs.Int64("seed", 1, "")
	walks := fs.Int("walks", 100, "")
	steps := fs.Int("steps", 40, "")
	careful := fs.Bool("careful", false, "")
	fs.Parse(args)

	u := &kUniverse{keys: []string{"a", "b", "c", "d"}, versions: []int{NN, -1, 0, 1, 2, 3, 4, 5, 6, 7, 8, 9, 200999, 201000, 201001, 300999, 301000, 301001}, // ... 2^31-1, 2^31, 2^31+1, 2^32-1, 2^32, 2^32+1
		labels: []int{0, 1, 2}, filters: []string{"null", "all", "lx1", "lx0", "fnx0", "nlx1", "nsa"}}
	for _, k := range u.keys {
		for _, v := range u.versions {
			for _, l := range u.labels {
				u.objects = append(u.objects, MObj{k, v, l})
			}
		}
	}
	rng := rand.New(rand.NewSource(*seed))
	r := &kRunner{u: u, w: newNDWriter(*out), careful: *careful}
	r.curOp.Store("")
	randList := func() []MObj {
		n := rng.Intn(6)
		dup := rng.Intn(10) == 0
		var l []MObj
		used := map[string]bool{}
		for len(l) < n {
			o := u.objects[rng.Intn(len(u.objects))]
			if used[o.K] && !dup {
				if len(used) == len(u.keys) {
					break
				}
				continue
			}
			used[o.K] = true
			l = append(l, o)
		}
		return l
	}
	nsteps := 0
	for w := 0; w < *walks; w++ {
		f := u.filters[rng.Intn(len(u.filters))]
		r.newCache(f)
		r.emit(fmt.Sprintf(`{"op":"new","f":%q,"walk":%d}`, f, w))
		for s := 0; s < *steps; s++ {
			var opjson string
			var apply func() ([]kcache.Event, error)
			switch x := rng.Intn(10); {
			case x < 3:
				l := randList()
				opjson = fmt.Sprintf(`"op":"sync","list":%s`, listJSON(l))
				apply = func() ([]kcache.Event, error) { return r.cache.Sync(podsOf(l)) }
			case x < 5:
				l := randList()
				nf := u.filters[rng.Intn(len(u.filters))]
				opjson = fmt.Sprintf(`"op":"refilter","nf":%q,"list":%s`, nf, listJSON(l))
				apply = func() ([]kcache.Event, error) { return r.cache.Refilter(podsOf(l), mkFilter(nf)) }
			default:
				o := u.objects[rng.Intn(len(u.objects))]
				et := []kcache.EventType{kcache.EventTypeCreate, kcache.EventTypeUpdate, kcache.EventTypeUpdate, kcache.EventTypeDelete}[rng.Intn(4)]
				opjson = fmt.Sprintf(`"op":%q,"o":[%q,%d,%d]`, string(et), o.K, o.V, o.L)
				apply = func() ([]kcache.Event, error) { return r.cache.Update(kcache.NewEvent(et, mkPod(o.K, o.V, o.L))) }
			}
			head := fmt.Sprintf(`{"walk":%d,"step":%d,%s`, w, s, opjson)
			r.curOp.Store(head)
			if r.careful {
				r.emit(head + `,"intent":1}`)
				r.w.flush()
			}
			evs, err := apply()
			atomic.AddInt64(&r.prog, 1)
			anom := ""
			if err != nil {
				anom = "op-error:" + err.Error() + ";"
			}
			post, get, a2 := r.observe()
			ej, a3 := evsJSON(evs)
			anom += a2 + a3
			r.emit(head + fmt.Sprintf(`,"post":%s,"get":%s,"ev":%s,"anom":%q}`, r.itJSON(post), r.itJSON(get), ej, anom))
			nsteps++
		}
	}
	r.w.close()
	fmt.Printf("kwalk: walks=%d steps=%d filters=%s\n", *walks, nsteps, strings.Join(u.filters, ","))
	return 0
}
