package main

// The tracer receives kcache's verif hooks (kcache.VerifTrace) and the
// harness' own observations and writes one ndjson line per event, ordered by
// one mutex + one counter (never wall clock).  Arguments are serialised inside
// the hook call and never retained.

import (
	"bytes"
	"encoding/json"
	"fmt"
	"reflect"
	"runtime"
	"strconv"
	"strings"
	"sync"
	"time"

	"github.com/boz/kcache"
	"github.com/boz/kcache/filter"
	"k8s.io/apimachinery/pkg/api/meta"
	metav1 "k8s.io/apimachinery/pkg/apis/meta/v1"
	kruntime "k8s.io/apimachinery/pkg/runtime"
	"k8s.io/apimachinery/pkg/watch"
)

type Tracer struct {
	mu      sync.Mutex
	w       *ndWriter
	seq     int
	run     string
	t0      time.Time
	ids     map[interface{}]string // actor -> name
	counts  map[string]int
	filters map[uintptr]string // registered filter values (by data pointer) -> model name
	fnames  []namedFilter
	active  bool
	seen    map[string]int // hook census
	univ    []MObj         // objects on which opaque filters are evaluated extensionally
	late    int
	runaway bool
}

type namedFilter struct {
	f    filter.Filter
	name string
}

// no scenario of the drivers comes near this many hook lines (the longest are about 60,000)
const hookLineLimit = 400000

var theTracer = &Tracer{seen: map[string]int{}}

func init() {
	kcache.VerifTrace = func(actor interface{}, ev string, args ...interface{}) { theTracer.Hook(actor, ev, args...) }
}

// Begin starts a new run (scenario); lines are written to w.
func (t *Tracer) Begin(w *ndWriter, run string) {
	t.mu.Lock()
	defer t.mu.Unlock()
	t.w = w
	t.run = run
	t.seq = 0
	t.t0 = time.Now()
	t.ids = map[interface{}]string{}
	t.counts = map[string]int{}
	t.fnames = []namedFilter{{filter.All(), "all"}, {filter.Null(), "null"}}
	t.active = true
	t.runaway = false
	t.late = 0
	if t.seen == nil {
		t.seen = map[string]int{}
	}
}

func (t *Tracer) End() {
	t.mu.Lock()
	t.active = false
	t.mu.Unlock()
}

// RegisterFilter names a filter value the harness built, so that hooks log it by name.
func (t *Tracer) RegisterFilter(f filter.Filter, name string) filter.Filter {
	t.mu.Lock()
	t.fnames = append(t.fnames, namedFilter{f, name})
	t.mu.Unlock()
	return f
}

func (t *Tracer) SetUniverse(u []MObj) {
	t.mu.Lock()
	t.univ = u
	t.mu.Unlock()
}

// Name returns (assigning if needed) the trace name of an actor. Caller holds mu.
func (t *Tracer) nameOf(a interface{}) string {
	if a == nil {
		return ""
	}
	if vc, ok := a.(kcache.VerifCache); ok {
		a = vc.Actor()
	}
	if vs, ok := a.(kcache.VerifSubscription); ok {
		a = vs.Subscription
	}
	rv := reflect.ValueOf(a)
	var key interface{} = a
	switch rv.Kind() {
	case reflect.Ptr, reflect.Map, reflect.Chan, reflect.Func, reflect.UnsafePointer:
		key = rv.Pointer()
	default:
		// value types (e.g. nullWatchSession{}) : name by type
		return "~" + typeShort(a)
	}
	if n, ok := t.ids[key]; ok {
		return n
	}
	ty := typeShort(a)
	t.counts[ty]++
	n := ty + strconv.Itoa(t.counts[ty])
	t.ids[key] = n
	return n
}

// NameOf is the locked variant for harness code.
func (t *Tracer) NameOf(a interface{}) string {
	t.mu.Lock()
	defer t.mu.Unlock()
	return t.nameOf(a)
}

func typeShort(a interface{}) string {
	s := fmt.Sprintf("%T", a)
	s = strings.TrimLeft(s, "*")
	if i := strings.LastIndex(s, "."); i >= 0 {
		s = s[i+1:]
	}
	s = strings.TrimLeft(s, "_")
	switch s {
	case "filterSubscription":
		return "fsub"
	case "subscription":
		return "sub"
	case "publisher":
		return "pub"
	case "controller":
		return "ctl"
	case "watchSession":
		return "sess"
	case "filterController":
		return "fctl"
	}
	return s
}

func jsObj(o metav1.Object) string {
	if o == nil || (reflect.ValueOf(o).Kind() == reflect.Ptr && reflect.ValueOf(o).IsNil()) {
		return `{"k":"","v":0,"l":0}`
	}
	m, ok := modelOf(o)
	if !ok {
		return fmt.Sprintf(`{"k":%q,"v":%d,"l":%d}`, "?"+o.GetNamespace()+"/"+o.GetName(), verModel(o.GetResourceVersion()), -1)
	}
	return fmt.Sprintf(`{"k":%q,"v":%d,"l":%d}`, m.K, m.V, m.L)
}

func jsEvent(e kcache.Event) string {
	if e == nil {
		return `{"et":"","o":{"k":"","v":0,"l":0}}`
	}
	return fmt.Sprintf(`{"et":%q,"o":%s}`, string(e.Type()), jsObj(e.Resource()))
}

func jsObjs(l []metav1.Object) string {
	var b bytes.Buffer
	b.WriteByte('[')
	for i, o := range l {
		if i > 0 {
			b.WriteByte(',')
		}
		b.WriteString(jsObj(o))
	}
	b.WriteByte(']')
	return b.String()
}

func jsEvents(l []kcache.Event) string {
	var b bytes.Buffer
	b.WriteByte('[')
	for i, e := range l {
		if i > 0 {
			b.WriteByte(',')
		}
		b.WriteString(jsEvent(e))
	}
	b.WriteByte(']')
	return b.String()
}

func (t *Tracer) filterName(f filter.Filter) string {
	if f == nil {
		return "nil"
	}
	for _, nf := range t.fnames {
		if sameFilterValue(nf.f, f) {
			return nf.name
		}
	}
	// opaque filter (built by library code, e.g. a join): log it extensionally
	var b bytes.Buffer
	b.WriteString("ext:")
	for _, o := range t.univ {
		if f.Accept(mkPod(o.K, o.V, o.L)) {
			b.WriteByte('1')
		} else {
			b.WriteByte('0')
		}
	}
	return b.String()
}

func sameFilterValue(a, b filter.Filter) bool {
	va, vb := reflect.ValueOf(a), reflect.ValueOf(b)
	if va.Type() != vb.Type() {
		return false
	}
	switch va.Kind() {
	case reflect.Ptr, reflect.Func, reflect.Map, reflect.Slice:
		return va.Pointer() == vb.Pointer() && (va.Kind() != reflect.Slice || va.Len() == vb.Len())
	case reflect.Struct:
		if va.NumField() == 0 {
			return true
		}
		return reflect.DeepEqual(a, b) // e.g. nsNameFilter: equal content, equal meaning
	}
	return false
}

func (t *Tracer) arg(a interface{}) string {
	switch v := a.(type) {
	case nil:
		return `""`
	case string:
		return strconv.Quote(v)
	case bool:
		if v {
			return "true"
		}
		return "false"
	case int:
		return strconv.Itoa(v)
	case time.Duration:
		return strconv.FormatInt(int64(v/time.Microsecond), 10)
	case error:
		if v == nil {
			return `""`
		}
		return strconv.Quote(v.Error())
	case kcache.Event:
		return jsEvent(v)
	case []kcache.Event:
		return jsEvents(v)
	case []metav1.Object:
		return jsObjs(v)
	case filter.Filter:
		return strconv.Quote(t.filterName(v))
	case watch.Event:
		o, err := meta.Accessor(v.Object)
		if err != nil {
			return fmt.Sprintf(`{"wt":%q,"o":{"k":"","v":0,"l":0},"kind":%q}`, string(v.Type), fmt.Sprintf("%T", v.Object))
		}
		return fmt.Sprintf(`{"wt":%q,"o":%s,"kind":"obj"}`, string(v.Type), jsObj(o))
	case metav1.Object:
		return jsObj(v)
	case kruntime.Object:
		if v == nil || (reflect.ValueOf(v).Kind() == reflect.Ptr && reflect.ValueOf(v).IsNil()) {
			return `"nil"`
		}
		return strconv.Quote(fmt.Sprintf("%T", v))
	}
	rv := reflect.ValueOf(a)
	switch rv.Kind() {
	case reflect.Ptr, reflect.Map, reflect.Chan, reflect.Func:
		if rv.IsNil() {
			return `""`
		}
		return strconv.Quote(t.nameOf(a))
	case reflect.Struct:
		return strconv.Quote(t.nameOf(a))
	}
	b, err := json.Marshal(a)
	if err != nil {
		return strconv.Quote(fmt.Sprintf("%v", a))
	}
	return string(b)
}

// hooks whose first argument is a resource version string: logged as the model version (see realToModel)
var versionArg = map[string]bool{"ctl.synced": true, "ctl.distributed": true, "watcher.reset": true, "watcher.retry": true,
	"watcher.sessiondone": true, "session.new": true, "session.connected": true}

// Hook is kcache.VerifTrace.
func (t *Tracer) Hook(actor interface{}, ev string, args ...interface{}) {
	if versionArg[ev] && len(args) > 0 {
		if s, ok := args[0].(string); ok && s != "" {
			if _, err := strconv.ParseInt(s, 10, 64); err == nil {
				args = append([]interface{}{strconv.Itoa(verModel(s))}, args[1:]...)
			}
		}
	}
	t.mu.Lock()
	defer t.mu.Unlock()
	t.seen[ev]++
	if !t.active {
		t.late++
		return
	}
	if t.seq > hookLineLimit {
		// a library goroutine logging without end (a hot loop): record it once, then keep only the harness' lines
		if !t.runaway {
			t.runaway = true
			t.seq++
			t.w.write2(fmt.Sprintf(`{"i":%d,"a":%q,"e":"runaway","last":%q,"t":%d}`, t.seq, t.nameOf(actor), ev, time.Since(t.t0).Microseconds()))
		}
		return
	}
	t.emit(t.nameOf(actor), ev, args)
}

// Log is used by harness code (consumers, fake server, drivers).
func (t *Tracer) Log(actor string, ev string, args ...interface{}) {
	t.mu.Lock()
	defer t.mu.Unlock()
	if !t.active {
		return
	}
	t.emit(actor, ev, args)
}

// LogRaw writes pre-serialised JSON fields (`"x":1,"y":[..]`).
func (t *Tracer) LogRaw(actor string, ev string, fields string) {
	t.mu.Lock()
	defer t.mu.Unlock()
	if !t.active {
		return
	}
	t.seq++
	var b bytes.Buffer
	fmt.Fprintf(&b, `{"i":%d,"a":%q,"e":%q`, t.seq, actor, ev)
	if fields != "" {
		b.WriteByte(',')
		b.WriteString(fields)
	}
	fmt.Fprintf(&b, `,"t":%d}`, time.Since(t.t0).Microseconds())
	t.w.write2(b.String())
}

func (t *Tracer) emit(actor string, ev string, args []interface{}) {
	t.seq++
	var b bytes.Buffer
	fmt.Fprintf(&b, `{"i":%d,"a":%q,"e":%q,"x":[`, t.seq, actor, ev)
	for i, a := range args {
		if i > 0 {
			b.WriteByte(',')
		}
		b.WriteString(t.arg(a))
	}
	fmt.Fprintf(&b, `],"t":%d}`, time.Since(t.t0).Microseconds())
	t.w.write2(b.String())
}

func (t *Tracer) Seq() int {
	t.mu.Lock()
	defer t.mu.Unlock()
	return t.seq
}

// ---------------------------------------------------------------- quiescence

// libGoroutines returns, from one stop-the-world stack dump, the wait states of
// all goroutines that have a kcache / go-lifecycle frame or a harness worker
// frame (functions whose name contains "hw_").
func libGoroutines() (states []string, dump string) {
	buf := make([]byte, 1<<20)
	for {
		n := runtime.Stack(buf, true)
		if n < len(buf) {
			buf = buf[:n]
			break
		}
		buf = make([]byte, 2*len(buf))
	}
	for _, g := range strings.Split(string(buf), "\n\n") {
		if !strings.HasPrefix(g, "goroutine ") {
			continue
		}
		isLib := strings.Contains(g, "github.com/boz/kcache") || strings.Contains(g, "github.com/boz/go-lifecycle")
		isWorker := strings.Contains(g, "hw_")
		if !isLib && !isWorker {
			continue
		}
		if strings.Contains(g, "main.libGoroutines") {
			continue // ourselves
		}
		hdr := g[:strings.Index(g, "\n")]
		st := hdr[strings.Index(hdr, "[")+1:]
		st = strings.TrimSuffix(strings.TrimSuffix(st, ":"), "]")
		if i := strings.Index(st, ","); i >= 0 {
			st = st[:i]
		}
		states = append(states, st)
	}
	return states, string(buf)
}

func idleState(s string) bool {
	switch s {
	case "select", "chan receive", "chan send", "select (no cases)", "sync.Cond.Wait", "semacquire", "sleep", "IO wait", "chan receive (nil chan)", "chan send (nil chan)":
		return true
	}
	return false
}

// quiesce waits until every library / worker goroutine is blocked and the trace does not advance: three
// consecutive stop-the-world snapshots spread over more than 2 ms must all show every such goroutine blocked,
// with the same set of goroutines and no trace line in between.  (Under heavy machine load a single short window
// was once seen to be "quiet" by accident.)
func allIdle(st []string) bool {
	for _, s := range st {
		if !idleState(s) || s == "sleep" {
			return false
		}
	}
	return true
}

func quiesce(t *Tracer, max time.Duration) bool {
	deadline := time.Now().Add(max)
	// giving up needs both: the deadline has passed and the system was looked at often enough (a process that was
	// not scheduled for seconds on a saturated machine must not mistake that for a busy library)
	for attempts := 0; ; attempts++ {
		s1 := t.Seq()
		st, _ := libGoroutines()
		ok := allIdle(st)
		for round := 0; ok && round < 2; round++ {
			runtime.Gosched()
			time.Sleep(time.Duration(400+900*round) * time.Microsecond)
			st2, _ := libGoroutines()
			ok = len(st2) == len(st) && allIdle(st2) && t.Seq() == s1
		}
		if ok {
			return true
		}
		if time.Now().After(deadline) && attempts >= 300 {
			return false
		}
		time.Sleep(300 * time.Microsecond)
	}
}

// libGoroutineCount counts goroutines with a library frame (leak census).
func libGoroutineCount() (int, string) {
	buf := make([]byte, 1<<20)
	for {
		n := runtime.Stack(buf, true)
		if n < len(buf) {
			buf = buf[:n]
			break
		}
		buf = make([]byte, 2*len(buf))
	}
	n := 0
	var sample string
	for _, g := range strings.Split(string(buf), "\n\n") {
		if strings.Contains(g, "github.com/boz/kcache") || strings.Contains(g, "github.com/boz/go-lifecycle") {
			if strings.Contains(g, "main.libGoroutineCount") {
				continue
			}
			n++
			if sample == "" {
				sample = g
			}
		}
	}
	return n, sample
}
