package main

// C09: joins.  All eight generated joins and IngressPods on real typed
// controllers over fake servers; seeded source / destination histories;
// at every quiescence a record with the current sources, destinations, the
// join's cache, readiness flags and the events its subscriber received;
// create/close cycles with a goroutine census.  spec/trace/JoinRecords.tla
// judges the records with the selection rule of Filters.tla.

import (
	"context"
	"flag"
	"fmt"
	"math/rand"
	"sort"
	"strings"
	"sync"
	"time"

	logutil "github.com/boz/go-logutil"
	"github.com/boz/kcache"
	"github.com/boz/kcache/client"
	"github.com/boz/kcache/join"
	"github.com/boz/kcache/types/daemonset"
	"github.com/boz/kcache/types/deployment"
	"github.com/boz/kcache/types/ingress"
	"github.com/boz/kcache/types/job"
	"github.com/boz/kcache/types/pod"
	"github.com/boz/kcache/types/replicaset"
	"github.com/boz/kcache/types/replicationcontroller"
	"github.com/boz/kcache/types/service"
	"github.com/boz/kcache/types/statefulset"
	appsv1 "k8s.io/api/apps/v1"
	batchv1 "k8s.io/api/batch/v1"
	corev1 "k8s.io/api/core/v1"
	netv1beta1 "k8s.io/api/networking/v1beta1"
	metav1 "k8s.io/apimachinery/pkg/apis/meta/v1"
	"k8s.io/apimachinery/pkg/runtime"
)

func init() { commands["join"] = joinMain }

type baseCtl interface {
	Ready() <-chan struct{}
	Done() <-chan struct{}
	Close()
}

type joinRun struct {
	src, dst, mid baseCtl
	joinReady     <-chan struct{}
	joinDone      <-chan struct{}
	list          func() ([]string, error) // "ns/name" of the join cache
	closeJoin     func()
	dstHas        func(ns, name string) bool
	events        func() []string // drains the events received by the join's subscriber: "type ns/name"
	stopEvents    func()
}

type joinCase struct {
	name  string
	kind  string // spec kind of the source
	mkSrc func(w W) runtime.Object
	start func(ctx context.Context, log logutil.Log, src, dst, mid *ObjServer) (*joinRun, error)
}

func wMeta(w W) metav1.ObjectMeta { return metav1.ObjectMeta{Namespace: w.NS, Name: w.Name} }

// podEvents subscribes to a pod controller and collects its events.
func podEvents(j pod.Controller) (func() []string, func()) {
	sub, err := j.Subscribe()
	if err != nil {
		return func() []string { return nil }, func() {}
	}
	var mu sync.Mutex
	var evs []string
	go func() { // hw_joinsub
		hw_joinsub(sub, &mu, &evs)
	}()
	return func() []string {
			mu.Lock()
			defer mu.Unlock()
			r := evs
			evs = nil
			return r
		}, func() {
			sub.Close()
		}
}

func hw_joinsub(sub pod.Subscription, mu *sync.Mutex, evs *[]string) {
	for e := range sub.Events() {
		mu.Lock()
		*evs = append(*evs, fmt.Sprintf(`["%s","%s/%s"]`, e.Type(), e.Resource().GetNamespace(), e.Resource().GetName()))
		mu.Unlock()
	}
}

func podKeys(l []*corev1.Pod, err error) ([]string, error) {
	var r []string
	for _, p := range l {
		if p == nil {
			r = append(r, "<nil>")
			continue
		}
		r = append(r, p.Namespace+"/"+p.Name)
	}
	sort.Strings(r)
	return r, err
}

func podJoin[SC baseCtl](name, kind string, mkSrc func(W) runtime.Object,
	build func(context.Context, logutil.Log, client.Client) (SC, error),
	joinFn func(context.Context, SC, pod.Publisher) (pod.Controller, error)) joinCase {
	return joinCase{name: name, kind: kind, mkSrc: mkSrc,
		start: func(ctx context.Context, log logutil.Log, src, dst, mid *ObjServer) (*joinRun, error) {
			sc, err := build(ctx, log, src)
			if err != nil {
				return nil, err
			}
			pc, err := pod.BuildController(ctx, log, dst)
			if err != nil {
				return nil, err
			}
			return podJoinOver(ctx, sc, pc, nil, func() (pod.Controller, error) { return joinFn(jctx(ctx), sc, pc) })
		}}
}

func podJoinOver(ctx context.Context, sc baseCtl, pc pod.Controller, mid baseCtl, mk func() (pod.Controller, error)) (*joinRun, error) {
	j, err := mk()
	if err != nil {
		return nil, err
	}
	ev, stop := podEvents(j)
	return &joinRun{src: sc, dst: pc, mid: mid, joinReady: j.Ready(), joinDone: j.Done(),
		list:      func() ([]string, error) { return podKeys(j.Cache().List()) },
		closeJoin: j.Close,
		dstHas: func(ns, name string) bool {
			o, err := pc.Cache().Get(ns, name)
			return err == nil && o != nil
		},
		events: ev, stopEvents: stop}, nil
}

func joinCases() []joinCase {
	lsel := func(w W) *metav1.LabelSelector { return lselOf(w.Sel) }
	return []joinCase{
		podJoin("ServicePods", "service", func(w W) runtime.Object {
			return &corev1.Service{ObjectMeta: wMeta(w), Spec: corev1.ServiceSpec{Selector: mapOf(w.Sel.ML)}}
		}, service.BuildController, join.ServicePods),
		podJoin("RCPods", "rc", func(w W) runtime.Object {
			tm := tmplOf(w)
			return &corev1.ReplicationController{ObjectMeta: wMeta(w), Spec: corev1.ReplicationControllerSpec{Selector: mapOf(w.Sel.ML), Template: &tm}}
		}, replicationcontroller.BuildController, join.RCPods),
		podJoin("RSPods", "rs", func(w W) runtime.Object {
			return &appsv1.ReplicaSet{ObjectMeta: wMeta(w), Spec: appsv1.ReplicaSetSpec{Selector: lsel(w), Template: tmplOf(w)}}
		}, replicaset.BuildController, join.RSPods),
		podJoin("DeploymentPods", "deployment", func(w W) runtime.Object {
			return &appsv1.Deployment{ObjectMeta: wMeta(w), Spec: appsv1.DeploymentSpec{Selector: lsel(w), Template: tmplOf(w)}}
		}, deployment.BuildController, join.DeploymentPods),
		podJoin("DaemonSetPods", "daemonset", func(w W) runtime.Object {
			return &appsv1.DaemonSet{ObjectMeta: wMeta(w), Spec: appsv1.DaemonSetSpec{Selector: lsel(w), Template: tmplOf(w)}}
		}, daemonset.BuildController, join.DaemonSetPods),
		podJoin("StatefulSetPods", "statefulset", func(w W) runtime.Object {
			return &appsv1.StatefulSet{ObjectMeta: wMeta(w), Spec: appsv1.StatefulSetSpec{Selector: lsel(w), Template: tmplOf(w)}}
		}, statefulset.BuildController, join.StatefulSetPods),
		podJoin("JobPods", "job", func(w W) runtime.Object {
			return &batchv1.Job{ObjectMeta: wMeta(w), Spec: batchv1.JobSpec{Selector: lsel(w), Template: tmplOf(w)}}
		}, job.BuildController, join.JobPods),
		{name: "IngressServices", kind: "ingress", mkSrc: mkIngress,
			start: func(ctx context.Context, log logutil.Log, src, dst, mid *ObjServer) (*joinRun, error) {
				ic, err := ingress.BuildController(ctx, log, src)
				if err != nil {
					return nil, err
				}
				sc, err := service.BuildController(ctx, log, dst)
				if err != nil {
					return nil, err
				}
				j, err := join.IngressServices(jctx(ctx), ic, sc)
				if err != nil {
					return nil, err
				}
				return &joinRun{src: ic, dst: sc, joinReady: j.Ready(), joinDone: j.Done(),
					list: func() ([]string, error) {
						l, err := j.Cache().List()
						var r []string
						for _, s := range l {
							r = append(r, s.Namespace+"/"+s.Name)
						}
						sort.Strings(r)
						return r, err
					},
					closeJoin: j.Close,
					dstHas: func(ns, name string) bool {
						o, err := sc.Cache().Get(ns, name)
						return err == nil && o != nil
					},
					events: func() []string { return nil }, stopEvents: func() {}}, nil
			}},
		{name: "IngressPods", kind: "ingresspods", mkSrc: mkIngress,
			start: func(ctx context.Context, log logutil.Log, src, dst, mid *ObjServer) (*joinRun, error) {
				ic, err := ingress.BuildController(ctx, log, src)
				if err != nil {
					return nil, err
				}
				sc, err := service.BuildController(ctx, log, mid)
				if err != nil {
					return nil, err
				}
				pc, err := pod.BuildController(ctx, log, dst)
				if err != nil {
					return nil, err
				}
				return podJoinOver(ctx, ic, pc, sc, func() (pod.Controller, error) { return join.IngressPods(jctx(ctx), ic, sc, pc) })
			}},
	}
}

func mkIngress(w W) runtime.Object {
	// an ingress descriptor reuses W: the backends are the values of Tmpl pairs
	ing := &netv1beta1.Ingress{ObjectMeta: wMeta(w)}
	for j, b := range w.Tmpl {
		if j == 0 {
			ing.Spec.Backend = &netv1beta1.IngressBackend{ServiceName: b[1]}
			continue
		}
		ing.Spec.Rules = append(ing.Spec.Rules, netv1beta1.IngressRule{IngressRuleValue: netv1beta1.IngressRuleValue{
			HTTP: &netv1beta1.HTTPIngressRuleValue{Paths: []netv1beta1.HTTPIngressPath{{Backend: netv1beta1.IngressBackend{ServiceName: b[1]}}}}}})
	}
	return ing
}

func jsW(ws map[string]W) string {
	var keys []string
	for k := range ws {
		keys = append(keys, k)
	}
	sort.Strings(keys)
	var out []string
	for _, k := range keys {
		w := ws[k]
		out = append(out, fmt.Sprintf(`{"ns":%q,"name":%q,"sel":%s,"tmpl":%s}`, w.NS, w.Name, jsSel(w.Sel), jsPairs(w.Tmpl)))
	}
	return "[" + strings.Join(out, ",") + "]"
}

func jsFObjs(m map[string]FObj) string {
	var keys []string
	for k := range m {
		keys = append(keys, k)
	}
	sort.Strings(keys)
	var out []string
	for _, k := range keys {
		out = append(out, m[k].JSON())
	}
	return "[" + strings.Join(out, ",") + "]"
}

func joinMain(args []string) int {
	fs := flag.NewFlagSet("join", flag.ExitOnError)
	out := fs.String("out", "", "output ndjson file")
	seed := fs.Int64("seed", 1, "")
	count := fs.Int("count", 9, "scenarios (scenario i uses join i mod 9)")
	steps := fs.Int("steps", 30, "history length")
	fs.Parse(args)
	w := newNDWriter(*out)
	// the hooks are not recorded here: opaque join filters are judged through the join's content
	theTracer.End()
	cases := joinCases()
	for i := 0; i < *count; i++ {
		c := cases[(i+int(*seed))%len(cases)]
		runJoinScenario(w, c, *seed*1000+int64(i), *steps)
	}
	w.close()
	fmt.Printf("join: scenarios=%d lines=%d\n", *count, w.n)
	return 0
}

// The context handed to a join constructor.  The generic core uses it for nothing but logging, so ending it
// while the join is open changes nothing: the join keeps following its source until it is closed.
var joinCtxOverride context.Context

func jctx(ctx context.Context) context.Context {
	if joinCtxOverride != nil {
		return joinCtxOverride
	}
	return ctx
}

func runJoinScenario(w *ndWriter, c joinCase, seed int64, steps int) {
	rng := rand.New(rand.NewSource(seed))
	pert := newPerturber(seed, []int{0, 3, 10}[rng.Intn(3)])
	log := newLog(pert)
	ctx, cancel := context.WithCancel(context.Background())
	defer cancel()
	jc, jcancel := context.WithCancel(ctx)
	defer jcancel()
	joinCtxOverride = jc
	defer func() { joinCtxOverride = nil }()
	cancelJoinCtxAt := -1
	if rng.Intn(3) == 0 {
		cancelJoinCtxAt = rng.Intn(steps)
	}
	src, dst, mid := NewObjServer(), NewObjServer(), NewObjServer()

	srcs := map[string]W{}    // current sources
	dsts := map[string]FObj{} // current destination objects (pods, or services for IngressServices)
	mids := map[string]FObj{} // services of the double join
	lmaps := labelMaps([]string{"1", "2"})
	selsL := []Sel{{Nil: true}, {}, {ML: []pair{{"x", "1"}}}, {ML: []pair{{"x", "1"}, {"y", "1"}}}, {ME: []Req{{"x", "In", []string{"1", "2"}}}}, {ME: []Req{{"x", "NotIn", []string{"1"}}}}, {ME: []Req{{"y", "Exists", nil}}}}
	selsM := []Sel{{}, {ML: []pair{{"x", "1"}}}, {ML: []pair{{"x", "1"}, {"y", "1"}}}, {ML: []pair{{"y", "2"}}}}
	nss := []string{"n1", "n2"}

	mutateSrc := func() {
		ns, name := nss[rng.Intn(2)], []string{"s1", "s2"}[rng.Intn(2)]
		k := ns + "/" + name
		if _, ok := srcs[k]; ok && rng.Intn(3) == 0 {
			delete(srcs, k)
			src.Delete(ns, name)
			return
		}
		wl := W{NS: ns, Name: name}
		switch c.kind {
		case "ingress", "ingresspods":
			n := rng.Intn(3)
			for i := 0; i < n; i++ {
				wl.Tmpl = append(wl.Tmpl, pair{"b", []string{"a", "b", "c"}[rng.Intn(3)]})
			}
		case "service", "rc":
			wl.Sel = selsM[rng.Intn(len(selsM))]
			wl.Tmpl = [][]pair{{{"x", "2"}}, {{"y", "1"}}}[rng.Intn(2)]
		default:
			wl.Sel = selsL[rng.Intn(len(selsL))]
			wl.Tmpl = [][]pair{{{"x", "2"}}, {{"y", "1"}}}[rng.Intn(2)]
		}
		srcs[k] = wl
		src.Set(c.mkSrc(wl))
	}
	mutatePods := func() {
		ns, name := nss[rng.Intn(2)], []string{"a", "b", "c"}[rng.Intn(3)]
		k := ns + "/" + name
		if _, ok := dsts[k]; ok && rng.Intn(4) == 0 {
			delete(dsts, k)
			dst.Delete(ns, name)
			return
		}
		o := FObj{Kind: "pod", NS: ns, Name: name, Labels: lmaps[rng.Intn(len(lmaps))]}
		if c.kind == "ingress" {
			o.Kind = "service"
		}
		dsts[k] = o
		dst.Set(o.Build().(runtime.Object))
	}
	mutateMid := func() {
		ns, name := nss[rng.Intn(2)], []string{"a", "b", "c"}[rng.Intn(3)]
		k := ns + "/" + name
		if _, ok := mids[k]; ok && rng.Intn(4) == 0 {
			delete(mids, k)
			mid.Delete(ns, name)
			return
		}
		o := FObj{Kind: "service", NS: ns, Name: name, Sel: selsM[rng.Intn(len(selsM))].ML}
		mids[k] = o
		mid.Set(o.Build().(runtime.Object))
	}
	for i := 0; i < rng.Intn(4); i++ {
		mutateSrc()
		mutatePods()
		if c.kind == "ingresspods" {
			mutateMid()
		}
	}
	if rng.Intn(3) == 0 && c.kind != "ingress" && c.kind != "rc" {
		// many destination objects no source selects (another namespace): every refilter takes a while, so
		// back-to-back source changes meet a join that is still busy with the previous one
		for i := 0; i < 1500; i++ {
			o := FObj{Kind: "pod", NS: "n9", Name: fmt.Sprintf("filler%d", i), Labels: []pair{{"z", "9"}}}
			dst.Set(o.Build().(runtime.Object))
		}
	}
	gated := rng.Intn(2) == 0
	gatedSrv := src
	if gated {
		// one side is not ready while the join is created: the source, or the destination base
		if rng.Intn(3) == 0 {
			gatedSrv = dst
		}
		gatedSrv.gate = make(chan struct{})
	}
	emit := func(k string, fields string) {
		w.write2(fmt.Sprintf(`{"k":%q,"join":%q,"kind":%q,"seed":%d,%s}`, k, c.name, c.kind, seed, fields))
	}
	idle := func() bool { return quiesce(theTracer, 3*time.Second) }

	// bases first, census, then create / use / close the join several times over the same bases
	run, err := c.start(ctx, log, src, dst, mid)
	if err != nil {
		emit("join.error", fmt.Sprintf(`"err":%q`, err.Error()))
		return
	}
	cycles := 1 + rng.Intn(2)
	baseline := -1
	snapN := 0
	prev := ""
	snapshot := func(tag string) {
		ok := idle()
		l, lerr := run.list()
		evs := run.events()
		snapN++
		emit("join.snap", fmt.Sprintf(`"n":%d,"tag":%q,"quiet":%v,"srcs":%s,"dsts":%s,"mids":%s,"joined":%s,"listerr":%v,"ready":{"src":%v,"dst":%v,"mid":%v,"join":%v},"events":%s,"prev":%q`,
			snapN, tag, ok, jsW(srcs), jsFObjs(dsts), jsFObjs(mids), jsStrs(l), lerr != nil,
			isClosed(run.src.Ready()), isClosed(run.dst.Ready()), run.mid == nil || isClosed(run.mid.Ready()), isClosed(run.joinReady), "["+strings.Join(evs, ",")+"]", prev))
		prev = tag
	}
	if gated {
		snapshot("gated") // one side is not ready: the join must not be ready
		if rng.Intn(2) == 0 {
			// the join is closed before it ever became ready: it stops all the same; a fresh one takes its place
			run.stopEvents()
			hung := false
			closed := make(chan struct{})
			go func() { run.closeJoin(); close(closed) }()
			select {
			case <-closed:
			case <-time.After(3 * time.Second):
				hung = true
			}
			select {
			case <-run.joinDone:
			case <-time.After(3 * time.Second):
				hung = true
			}
			emit("join.earlyclosed", fmt.Sprintf(`"hung":%v,"gated":%q`, hung, map[bool]string{true: "src", false: "dst"}[gatedSrv == src]))
			nrun, err := restartJoin(ctx, c, run)
			if err != nil {
				emit("join.error", fmt.Sprintf(`"err":%q`, err.Error()))
				return
			}
			run = nrun
			prev = ""
			snapshot("gated")
		}
		close(gatedSrv.gate)
	}
	for cy := 0; cy <= cycles; cy++ {
		if cy > 0 {
			// a fresh join over the same long-lived base controllers
			var nrun *joinRun
			nrun, err = restartJoin(ctx, c, run)
			if err != nil {
				emit("join.error", fmt.Sprintf(`"err":%q`, err.Error()))
				return
			}
			run = nrun
			prev = ""
		}
		before := baseline // census of the long-lived bases alone (-1: not known yet)
		for s := 0; s < steps; s++ {
			if cy == 0 && s == cancelJoinCtxAt {
				jcancel()
			}
			switch x := rng.Intn(10); {
			case x < 4:
				// often a burst of back-to-back source changes: the join has to end at the last one
				for n := 1 + rng.Intn(4)*rng.Intn(2); n > 0; n-- {
					mutateSrc()
				}
			case x < 8 || c.kind != "ingresspods":
				mutatePods()
			default:
				mutateMid()
			}
			if rng.Intn(4) == 0 {
				snapshot("mid")
			} else if rng.Intn(2) == 0 {
				time.Sleep(time.Duration(rng.Intn(300)) * time.Microsecond)
			}
		}
		snapshot("end")
		// close the join result: everything the join created stops, the bases keep running
		run.stopEvents()
		closed := make(chan struct{})
		go func() { run.closeJoin(); close(closed) }()
		hung := false
		select {
		case <-closed:
		case <-time.After(3 * time.Second):
			hung = true
		}
		select {
		case <-run.joinDone:
		case <-time.After(3 * time.Second):
			hung = true
		}
		idle()
		time.Sleep(2 * time.Millisecond)
		idle()
		after, sample := libGoroutineCount()
		// the bases must still deliver: a marker object reaches the destination base cache
		marker := FObj{Kind: "pod", NS: "n1", Name: fmt.Sprintf("marker%d", cy), Labels: nil}
		if c.kind == "ingress" {
			marker.Kind = "service"
		}
		dst.Set(marker.Build().(runtime.Object))
		alive := false
		for i := 0; i < 400 && !alive; i++ {
			alive = run.dstHas("n1", marker.Name)
			if !alive {
				time.Sleep(5 * time.Millisecond)
			}
		}
		dst.Delete("n1", marker.Name)
		baseDone := isClosed(run.src.Done()) || isClosed(run.dst.Done()) || (run.mid != nil && isClosed(run.mid.Done()))
		if before < 0 {
			before = after // first cycle: the census after the first close is the baseline for the next cycles
			baseline = after
		}
		sample = strings.ReplaceAll(sample, "\n", " | ")
		if len(sample) > 400 {
			sample = sample[:400]
		}
		emit("join.closed", fmt.Sprintf(`"cycle":%d,"hung":%v,"before":%d,"after":%d,"base_alive":%v,"base_done":%v,"sample":%q`, cy, hung, before, after, alive, baseDone, sample))
	}
	// sometimes the SOURCE base stops first while a fresh join is alive (spec/JoinLife.tla: shutdown never goes
	// sideways): the join stays alive, keeps its last filter and keeps following the destination
	srcClosed := false
	if rng.Intn(3) == 0 {
		if nrun, err := restartJoin(ctx, c, run); err == nil {
			run = nrun
			prev = ""
			snapshot("end")
			run.src.Close()
			srcHung := false
			select {
			case <-run.src.Done():
			case <-time.After(3 * time.Second):
				srcHung = true
			}
			srcClosed = true
			idle()
			time.Sleep(2 * time.Millisecond)
			idle()
			joinDone := isClosed(run.joinDone)
			for n := 2 + rng.Intn(3); n > 0 && !joinDone; n-- {
				mutatePods()
			}
			if !joinDone {
				snapshot("srcclosed")
				joinDone = isClosed(run.joinDone)
			}
			run.stopEvents()
			closed := make(chan struct{})
			go func() { run.closeJoin(); close(closed) }()
			hung := false
			select {
			case <-closed:
			case <-time.After(3 * time.Second):
				hung = true
			}
			select {
			case <-run.joinDone:
			case <-time.After(3 * time.Second):
				hung = true
			}
			emit("join.srcclosed", fmt.Sprintf(`"join_done":%v,"src_hung":%v,"hung":%v,"dst_done":%v`, joinDone, srcHung, hung, isClosed(run.dst.Done())))
		} else {
			emit("join.error", fmt.Sprintf(`"err":%q`, err.Error()))
			return
		}
	}
	// first only the destination base stops: a join requested now fails (or is born dead), and whatever it had
	// already created on the still running source side must be gone again
	idle()
	beforeLate, _ := libGoroutineCount()
	run.dst.Close()
	select {
	case <-run.dst.Done():
	case <-time.After(3 * time.Second):
	}
	idle()
	afterDstClosed, _ := libGoroutineCount()
	half := make(chan string, 1)
	go func() {
		nrun, err := restartJoin(ctx, c, run)
		if err != nil {
			half <- "error"
			return
		}
		nrun.stopEvents()
		select {
		case <-nrun.joinDone:
			half <- "done"
		case <-time.After(2 * time.Second):
			nrun.closeJoin()
			half <- "alive"
		}
	}()
	halfRes := "blocked"
	select {
	case halfRes = <-half:
	case <-time.After(4 * time.Second):
	}
	idle()
	time.Sleep(2 * time.Millisecond)
	idle()
	afterHalf, sampleHalf := libGoroutineCount()
	sampleHalf = strings.ReplaceAll(sampleHalf, "\n", " | ")
	if len(sampleHalf) > 300 {
		sampleHalf = sampleHalf[:300]
	}
	emit("join.halfstopped", fmt.Sprintf(`"res":%q,"before":%d,"dst_closed":%d,"after":%d,"sample":%q`, halfRes, beforeLate, afterDstClosed, afterHalf, sampleHalf))
	// shut the other bases down
	if !srcClosed {
		run.src.Close()
	}
	if run.mid != nil {
		run.mid.Close()
	}
	// a join requested on bases that have shut down: an error (or a join that is itself done), never a zombie
	for _, b := range []baseCtl{run.src, run.dst} {
		select {
		case <-b.Done():
		case <-time.After(3 * time.Second):
		}
	}
	late := make(chan string, 1)
	go func() {
		nrun, err := restartJoin(ctx, c, run)
		if err != nil {
			late <- "error"
			return
		}
		nrun.stopEvents()
		select {
		case <-nrun.joinDone:
			late <- "done"
		case <-time.After(2 * time.Second):
			nrun.closeJoin()
			late <- "alive"
		}
	}()
	lateRes := "blocked"
	select {
	case lateRes = <-late:
	case <-time.After(4 * time.Second):
	}
	cancel()
	for i := 0; i < 400; i++ {
		if n, _ := libGoroutineCount(); n == 0 {
			break
		}
		time.Sleep(5 * time.Millisecond)
	}
	n, _ := libGoroutineCount()
	emit("join.end", fmt.Sprintf(`"leak":%d,"late_join":%q`, n, lateRes))
}

// restartJoin creates a new join over the base controllers of an earlier run.
var restartJoin = func(ctx context.Context, c joinCase, old *joinRun) (*joinRun, error) {
	switch c.name {
	case "ServicePods":
		return podJoinOver(ctx, old.src, old.dst.(pod.Controller), nil, func() (pod.Controller, error) {
			return join.ServicePods(jctx(ctx), old.src.(service.Controller), old.dst.(pod.Controller))
		})
	case "RCPods":
		return podJoinOver(ctx, old.src, old.dst.(pod.Controller), nil, func() (pod.Controller, error) {
			return join.RCPods(jctx(ctx), old.src.(replicationcontroller.Controller), old.dst.(pod.Controller))
		})
	case "RSPods":
		return podJoinOver(ctx, old.src, old.dst.(pod.Controller), nil, func() (pod.Controller, error) {
			return join.RSPods(jctx(ctx), old.src.(replicaset.Controller), old.dst.(pod.Controller))
		})
	case "DeploymentPods":
		return podJoinOver(ctx, old.src, old.dst.(pod.Controller), nil, func() (pod.Controller, error) {
			return join.DeploymentPods(jctx(ctx), old.src.(deployment.Controller), old.dst.(pod.Controller))
		})
	case "DaemonSetPods":
		return podJoinOver(ctx, old.src, old.dst.(pod.Controller), nil, func() (pod.Controller, error) {
			return join.DaemonSetPods(jctx(ctx), old.src.(daemonset.Controller), old.dst.(pod.Controller))
		})
	case "StatefulSetPods":
		return podJoinOver(ctx, old.src, old.dst.(pod.Controller), nil, func() (pod.Controller, error) {
			return join.StatefulSetPods(jctx(ctx), old.src.(statefulset.Controller), old.dst.(pod.Controller))
		})
	case "JobPods":
		return podJoinOver(ctx, old.src, old.dst.(pod.Controller), nil, func() (pod.Controller, error) {
			return join.JobPods(jctx(ctx), old.src.(job.Controller), old.dst.(pod.Controller))
		})
	case "IngressPods":
		return podJoinOver(ctx, old.src, old.dst.(pod.Controller), old.mid, func() (pod.Controller, error) {
			return join.IngressPods(jctx(ctx), old.src.(ingress.Controller), old.mid.(service.Controller), old.dst.(pod.Controller))
		})
	case "IngressServices":
		ic, sc := old.src.(ingress.Controller), old.dst.(service.Controller)
		j, err := join.IngressServices(jctx(ctx), ic, sc)
		if err != nil {
			return nil, err
		}
		return &joinRun{src: ic, dst: sc, joinReady: j.Ready(), joinDone: j.Done(),
			list: func() ([]string, error) {
				l, err := j.Cache().List()
				var r []string
				for _, s := range l {
					r = append(r, s.Namespace+"/"+s.Name)
				}
				sort.Strings(r)
				return r, err
			},
			closeJoin: j.Close, dstHas: old.dstHas,
			events: func() []string { return nil }, stopEvents: func() {}}, nil
	}
	return nil, fmt.Errorf("unknown join %s", c.name)
}

var _ = kcache.EventBufsiz
