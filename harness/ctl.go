package main

// Mode C scenarios for the list/watch controller (C03 C04 C12 C13 C14): a real
// controller with a small tree attached, on the fake API server with scripted
// list and watch faults.  Judged by spec/trace/TreeTrace.tla (server, lister,
// watcher and session lines included).

import (
	"context"
	"flag"
	"fmt"
	"math/rand"
	"os"
	"sync"
	"sync/atomic"
	"time"

	"github.com/boz/kcache"
	"github.com/boz/kcache/filter"
	metav1 "k8s.io/apimachinery/pkg/apis/meta/v1"
)

func init() { commands["ctl"] = ctlMain }

func ctlMain(args []string) int {
	fs := flag.NewFlagSet("ctl", flag.ExitOnError)
	out := fs.String("out", "", "output ndjson file")
	seed := fs.Int64("seed", 1, "")
	count := fs.Int("count", 4, "number of scenarios")
	variant := fs.String("variant", "relist", "relist | watch | listfail | timing | shutdown")
	fs.Parse(args)
	w := newNDWriter(*out)
	done := 0
	for i := 0; i < *count; i++ {
		done++
		if runCtlScenario(w, *seed*100000+int64(i), *variant, i) {
			fmt.Printf("ctl: stopping after scenario %d (it did not terminate cleanly; recorded in the trace)\n", i)
			break
		}
	}
	w.close()
	fmt.Printf("ctl: scenarios=%d variant=%s lines=%d late=%d\n", done, *variant, w.n, theTracer.late)
	return 0
}

// slowFilter accepts what `inner` accepts but takes a while: it makes the
// controller (which evaluates its filter in the cache goroutine it waits for)
// slower than the watch stream.
func slowFilter(inner filter.Filter, d *time.Duration) filter.Filter {
	return filter.FN(func(o metav1.Object) bool {
		if *d > 0 {
			time.Sleep(*d)
		}
		return inner.Accept(o)
	})
}

func randWatchAct(rng *rand.Rand, variant string) WatchAct {
	a := WatchAct{}
	x := rng.Intn(100)
	switch variant {
	case "watch":
		switch {
		case x < 25: // healthy
		case x < 45:
			a.CloseAfter = 1 + rng.Intn(15) // a disconnect at any position of the history
		case x < 55:
			a.CloseAfter = -1
		case x < 70:
			a.ConnErr = true
			a.ConnErrKind = rng.Intn(3)
		case x < 85:
			a.Inject = map[int]string{rng.Intn(3): []string{"status", "bookmark", "unknown", "error"}[rng.Intn(4)]}
			if rng.Intn(2) == 0 {
				a.CloseAfter = 2 + rng.Intn(10)
			}
		default:
			a.Inject = map[int]string{rng.Intn(3): []string{"nilobj", "nonobj", "error-nil", "error-pod"}[rng.Intn(4)]}
		}
	default: // relist and the others: anything goes, the relist must repair it
		switch {
		case x < 20:
		case x < 30:
			a.CloseAfter = 1 + rng.Intn(4)
		case x < 38:
			a.ConnErr = true
			a.ConnErrKind = rng.Intn(3)
		case x < 46:
			a.Hang = true
		case x < 54:
			a.Mute = true
		case x < 64:
			a.DropAt = map[int]bool{rng.Intn(3): true}
		case x < 72:
			a.DupAt = map[int]bool{rng.Intn(3): true}
		case x < 80:
			a.FromOlder = 1 + rng.Intn(3)
		case x < 90:
			a.Inject = map[int]string{rng.Intn(3): []string{"status", "bookmark", "unknown", "error", "nilobj", "nonobj"}[rng.Intn(6)]}
		default:
			a.CloseAfter = -1
		}
	}
	return a
}

func runCtlScenario(w *ndWriter, seed int64, variant string, idx int) bool {
	rng := rand.New(rand.NewSource(seed))
	tr := theTracer
	run := fmt.Sprintf("ctl-%s-%d", variant, seed)
	tr.Begin(w, run)
	var univ []MObj
	for _, k := range treeKeys {
		for l := 0; l < 2; l++ {
			univ = append(univ, MObj{k, 1, l})
		}
	}
	tr.SetUniverse(univ)
	pert := newPerturber(seed, []int{0, 3, 10}[rng.Intn(3)])
	s := &treeScn{tr: tr, rng: rng, pert: pert}
	s.srv = NewFakeServer(tr)
	srv := s.srv
	srv.Converged = variant == "relist" || variant == "watch"
	srv.DeleteKeepsVersion = variant == "watch" && rng.Intn(3) == 0
	// resource versions are compared as numbers by the cache but travel as strings: start near a digit boundary
	srv.rv = []int{1, 1, 6, 95, 996, 2147483630, 4294967280}[rng.Intn(7)] // ... and near 2^31 and 2^32

	ctlFilter := []string{"null", "null", "lx1", "nsa", "nlx1"}[rng.Intn(5)]
	period := time.Hour
	nWatch := 12
	var slow time.Duration
	switch variant {
	case "relist":
		period = time.Duration(30+rng.Intn(50)) * time.Millisecond
	case "listfail":
		period = time.Duration(25+rng.Intn(30)) * time.Millisecond
	case "shutdown":
		period = time.Duration(20+rng.Intn(60)) * time.Millisecond
	case "timing":
		period = []time.Duration{40 * time.Millisecond, 100 * time.Millisecond}[rng.Intn(2)]
	}
	// list script
	failAt, failKind := -1, ""
	var latency time.Duration
	switch variant {
	case "relist":
		for i := 0; i < 40; i++ {
			a := ListAct{}
			if rng.Intn(3) == 0 {
				a.Delay = time.Duration(rng.Intn(60)) * time.Millisecond
				a.Late = rng.Intn(2) == 0
			}
			if i > 0 && rng.Intn(5) == 0 {
				a.Repeat = true // a stale API server cache: the previous list's content and version once more
			}
			srv.lists = append(srv.lists, a)
		}
	case "listfail":
		failAt = rng.Intn(4)
		failKind = []string{"error", "nil", "notlist", "nonobject", "ctxerr", "nometa", "nonobject-mid", "status"}[rng.Intn(8)]
		for i := 0; i <= failAt; i++ {
			a := ListAct{}
			if i == failAt {
				a.Fail = failKind
			}
			srv.lists = append(srv.lists, a)
		}
	case "timing":
		gi := idx + int(seed/100000)
		ratio := []float64{0, 0.5, 1, 2, 5}[gi%5]
		latency = time.Duration(ratio * float64(period))
		for i := 0; i < 200; i++ {
			srv.lists = append(srv.lists, ListAct{Delay: latency})
		}
		slow = time.Duration([]float64{0, 0.5, 2}[(gi/5)%3] * float64(period) / 4)
	case "shutdown":
		hangAt := -1
		if rng.Intn(2) == 0 {
			hangAt = rng.Intn(4) // this List call returns only when its context is cancelled
		}
		for i := 0; i < 40; i++ {
			a := ListAct{}
			if rng.Intn(4) == 0 {
				a.Delay = time.Duration(rng.Intn(80)) * time.Millisecond
			}
			if i == hangAt {
				a.Gate = make(chan struct{})
				a.Linger = time.Duration(20+rng.Intn(60)) * time.Millisecond
			}
			srv.lists = append(srv.lists, a)
		}
	}
	for i := 0; i < nWatch; i++ {
		v := variant
		if variant == "listfail" || variant == "shutdown" {
			v = "relist"
		}
		if variant == "timing" {
			srv.watchs = append(srv.watchs, WatchAct{})
			continue
		}
		srv.watchs = append(srv.watchs, randWatchAct(rng, v))
	}
	if variant == "watch" {
		// never more than two connect errors in a row, and the last scripted stream is healthy
		n := 0
		for i := range srv.watchs {
			if srv.watchs[i].ConnErr {
				n++
				if n > 2 {
					srv.watchs[i] = WatchAct{}
					n = 0
				}
			} else {
				n = 0
			}
		}
	}
	tr.LogRaw("drv", "begin", fmt.Sprintf(`"run":%q,"variant":%q,"seed":%d,"buf":%d,"keys":["a","b","c","d"],"ctlfilter":%q,"perturb":%d,"period_us":%d,"latency_us":%d,"slow_us":%d,"failat":%d,"failkind":%q`,
		run, variant, seed, kcache.EventBufsiz, ctlFilter, pert.rate, period.Microseconds(), latency.Microseconds(), slow.Microseconds(), failAt, failKind))
	for i := 0; i < rng.Intn(4); i++ {
		srv.Set(treeKeys[rng.Intn(len(treeKeys))], rng.Intn(2))
	}
	ctx, cancel := context.WithCancel(context.Background())
	defer cancel()
	var slowNow time.Duration
	cf := mkFilter(ctlFilter)
	var realFilter filter.Filter = cf
	if variant == "watch" || variant == "timing" || variant == "relist" || variant == "shutdown" {
		realFilter = slowFilter(cf, &slowNow)
	}
	// the builder's setters commute: the order in which an application calls them must not matter
	b := kcache.NewBuilder()
	setters := []func(){
		func() { b.Context(ctx) },
		func() { b.Log(newLog(pert)) },
		func() { b.Client(srv) },
		func() { b.Filter(tr.RegisterFilter(realFilter, ctlFilter)) },
		func() { b.Lister().RefreshPeriod(period) },
	}
	rng.Shuffle(len(setters), func(i, j int) { setters[i], setters[j] = setters[j], setters[i] })
	for _, set := range setters {
		set()
	}
	ctl, err := b.Create()
	if err != nil {
		fmt.Fprintln(os.Stderr, "create:", err)
		os.Exit(2)
	}
	s.ctl = ctl
	root := &tnode{id: 0, kind: "root", pub: ctl, closer: ctl, done: ctl.Done(), ready: ctl.Ready(), cache: ctl.Cache(), stage: tr.NameOf(ctl), mode: "none"}
	s.nodes = append(s.nodes, root)
	s.observe(root)
	// a small tree, so that events, readiness and shutdown of descendants are observed too
	s.addNode(root, "sub", "healthy", "null")
	s.addNode(root, "fsub", "healthy", []string{"lx1", "nlx1", "null"}[rng.Intn(3)])
	if c := s.addNode(root, "clone", "none", "null"); c != nil {
		s.addNode(c, "sub", "healthy", "null")
	}
	if rng.Intn(2) == 0 {
		s.addNode(root, "dclone", "none", "null")
	}

	// a reader of the controller's cache next to the list/watch traffic (relist, watch): what List and Get return
	// is the cache content at some point between call and return, whatever the controller is doing
	var rdStop int32
	var rdCount int64
	var rdWG sync.WaitGroup
	if variant == "relist" || variant == "watch" {
		rdWG.Add(1)
		cname := tr.NameOf(ctl.Cache())
		go func() {
			defer rdWG.Done()
			hw_readerPaced(tr, ctl.Cache(), cname, 0, seed, &rdStop, &rdCount, 1500*time.Microsecond)
		}()
	}
	stopReader := func() {
		atomic.StoreInt32(&rdStop, 1)
		rdWG.Wait()
	}
	defer stopReader()

	how := "close"
	switch variant {
	case "relist", "listfail":
		n := 8 + rng.Intn(25)
		for i := 0; i < n && !isClosed(ctl.Done()); i++ {
			// now and then the controller is slow, so that forwarded watch events are still queued when a list completes
			if variant == "relist" {
				switch rng.Intn(5) {
				case 0:
					slowNow = time.Duration(1000+rng.Intn(4000)) * time.Microsecond
				case 1, 2:
					slowNow = 0
				}
			}
			s.mutate()
			if rng.Intn(3) != 0 {
				time.Sleep(time.Duration(rng.Intn(12000)) * time.Microsecond)
			}
		}
		if variant == "relist" && rng.Intn(4) == 0 && !isClosed(ctl.Done()) {
			// a burst the slowed controller cannot keep up with: the watcher's buffer overflows, events are lost,
			// and only the next relist can repair the cache
			slowNow = 2 * time.Millisecond
			for i := 0; i < 130+rng.Intn(60); i++ {
				s.mutate()
			}
			time.Sleep(20 * time.Millisecond)
		}
		slowNow = 0
		if variant == "listfail" {
			// the failing list must stop the controller by itself
			select {
			case <-ctl.Done():
				how = "none"
			case <-time.After(time.Duration(failAt+3)*period*2 + 1500*time.Millisecond):
				tr.LogRaw("drv", "expect", `"what":"controller-stops-after-list-failure","met":false`)
			}
		} else {
			if rng.Intn(4) == 0 {
				// everything disappears: the next list is empty and its Delete events must still be published
				for _, k := range treeKeys {
					srv.Delete(k)
				}
			}
			// the server is quiet now: one further relist (started after this point) must bring the cache up to date;
			// from here on the API server answers lists from its current state (no stale cache any more);
			// wait for two list completions, since one may have been in flight
			srv.mu.Lock()
			for i := srv.nList; i < len(srv.lists); i++ {
				srv.lists[i].Repeat, srv.lists[i].Late = false, false
			}
			srv.mu.Unlock()
			s.waitLists(2, 3*time.Second+4*period)
			stopReader()
			s.barrierRetry("final")
		}
	case "watch":
		// mutations in bursts; the controller is slowed around the bursts so that forwarded events queue up
		n := 15 + rng.Intn(30)
		for i := 0; i < n; i++ {
			if rng.Intn(4) == 0 {
				slowNow = time.Duration(rng.Intn(3000)) * time.Microsecond
			} else if rng.Intn(3) == 0 {
				slowNow = 0
			}
			s.mutate()
			if rng.Intn(3) == 0 {
				time.Sleep(time.Duration(rng.Intn(30000)) * time.Microsecond)
			}
			if rng.Intn(6) == 0 {
				// long enough for a reconnect to happen mid-history
				time.Sleep(1100 * time.Millisecond)
			}
		}
		slowNow = 0
		if (idx+int(seed/100000))%3 == 0 {
			// an idle spell of the server: four streams in a row end without having carried an event (closed at
			// once by a watch timeout, Watch() failing twice, closed again); each costs one reconnect delay, not more
			srv.ScriptTail([]WatchAct{{CloseAfter: -1}, {ConnErr: true}, {ConnErr: true, ConnErrKind: 1}, {CloseAfter: -1}, {}})
			srv.CloseIdleStreams()
		}
		// the server is quiet.  Every scripted fault that is still ahead costs one reconnect delay; once a stream that
		// will not be cut is connected it replays what was missed and the cache must be current at once.
		// the reconnect delay is one second: k faults still ahead cost k+1 reconnects (plus one for a stream cut just now)
		ahead := srv.FaultsAhead()
		deadline := time.Now().Add(time.Duration(ahead+2)*1050*time.Millisecond + 1500*time.Millisecond)
		met := false
		for time.Now().Before(deadline) {
			if srv.HealthyWatchConnected() {
				met = true
				break
			}
			time.Sleep(5 * time.Millisecond)
		}
		tr.LogRaw("drv", "expect", fmt.Sprintf(`"what":"watch-reestablished","met":%v`, met))
		srv.Converged = met
		time.Sleep(100 * time.Millisecond)
		stopReader()
		s.barrierRetry("final")
	case "timing":
		slowNow = slow
		start := time.Now()
		want := 6
		budget := time.Duration(want+1)*(period+period/5+latency+4*slow) + 2*time.Second
		for time.Since(start) < budget {
			n, _, _ := srv.ListStats()
			if n >= want+1 {
				break
			}
			if slow > 0 {
				s.mutate()
			}
			time.Sleep(period / 4)
		}
		n, maxIn, _ := srv.ListStats()
		tr.LogRaw("drv", "lists", fmt.Sprintf(`"n":%d,"want":%d,"maxinflight":%d,"elapsed_us":%d,"budget_us":%d`, n, want, maxIn, time.Since(start).Microseconds(), budget.Microseconds()))
		slowNow = 0
		// shut down at a seeded phase of the list/tick cycle; in half of the runs while a List call is in flight
		// that returns only when its context is cancelled
		if rng.Intn(2) == 0 {
			srv.mu.Lock()
			for i := srv.nList; i < len(srv.lists); i++ {
				srv.lists[i].Gate = make(chan struct{})
			}
			srv.mu.Unlock()
			time.Sleep(period + period/2 + latency)
		}
		time.Sleep(time.Duration(rng.Int63n(int64(period + latency + 1))))
	case "shutdown":
		steps := 6 + rng.Intn(20)
		k := rng.Intn(steps)
		for i := 0; i < k; i++ {
			switch rng.Intn(6) {
			case 0:
				s.randomRefilter(rng, 100)
			case 1:
				ps := s.publishers()
				if len(ps) > 0 && len(s.nodes) < 9 {
					s.addNode(ps[rng.Intn(len(ps))], []string{"sub", "fsub", "clone", "dsub", "mon", "fclone"}[rng.Intn(6)], []string{"healthy", "stalled", "slow"}[rng.Intn(3)], treeFilters[rng.Intn(len(treeFilters))])
				}
			default:
				s.mutate()
			}
			time.Sleep(time.Duration(rng.Intn(20000)) * time.Microsecond)
		}
		how = []string{"close", "close3", "cancel", "close"}[rng.Intn(4)]
		if rng.Intn(2) == 0 {
			// shutdown in the middle of the traffic: the controller is busy applying watch events (slowed filter),
			// more are queued behind, a relist may be due
			s.hot = true
			slowNow = time.Duration(300+rng.Intn(2500)) * time.Microsecond
			for i := 5 + rng.Intn(25); i > 0; i-- {
				s.mutate()
			}
			time.Sleep(time.Duration(rng.Intn(6000)) * time.Microsecond)
		}
		// API calls racing with the shutdown
		go func() { hw_racer(s, root) }()
	}
	stuck, leak := s.finish(root, how, cancel)
	tr.LogRaw("drv", "end", fmt.Sprintf(`"run":%q`, run))
	tr.End()
	return stuck || leak != 0
}

// hw_racer issues Subscribe / Clone calls while the root shuts down: each must yield
// ErrNotRunning or an object that itself becomes done.
func hw_racer(s *treeScn, root *tnode) {
	for i := 0; i < 6; i++ {
		sub, err := root.pub.Subscribe()
		res := "notrunning"
		if err == nil {
			select {
			case <-sub.Done():
				res = "done"
			case <-time.After(3 * time.Second):
				res = "zombie"
			}
		}
		s.tr.LogRaw(root.stage, "race", fmt.Sprintf(`"call":"Subscribe","res":%q`, res))
		c, err := root.pub.CloneWithFilter(filter.Null())
		res = "notrunning"
		if err == nil {
			select {
			case <-c.Done():
				res = "done"
			case <-time.After(3 * time.Second):
				res = "zombie"
			}
		}
		s.tr.LogRaw(root.stage, "race", fmt.Sprintf(`"call":"CloneWithFilter","res":%q`, res))
		time.Sleep(200 * time.Microsecond)
	}
}

// waitLists waits until n more List calls have returned.
func (s *treeScn) waitLists(n int, max time.Duration) {
	s.srv.mu.Lock()
	start := s.srv.nListRet
	s.srv.mu.Unlock()
	deadline := time.Now().Add(max)
	for time.Now().Before(deadline) {
		s.srv.mu.Lock()
		cur := s.srv.nListRet
		s.srv.mu.Unlock()
		if cur >= start+n {
			s.tr.LogRaw("drv", "relisted", fmt.Sprintf(`"n":%d,"met":true`, cur-start))
			return
		}
		time.Sleep(2 * time.Millisecond)
	}
	s.tr.LogRaw("drv", "relisted", fmt.Sprintf(`"n":%d,"met":false`, n))
}

// barrierRetry: with periodic relists the system is rarely still for long; try a few times.
func (s *treeScn) barrierRetry(why string) bool {
	for i := 0; i < 5; i++ {
		if quiesce(s.tr, 400*time.Millisecond) {
			s.tr.LogRaw("drv", "quiesce", fmt.Sprintf(`"ok":true,"why":%q`, why))
			time.Sleep(2 * time.Millisecond)
			if quiesce(s.tr, 400*time.Millisecond) {
				s.tr.LogRaw("drv", "quiesce", fmt.Sprintf(`"ok":true,"why":%q`, why+"-confirm"))
				return true
			}
		}
	}
	s.tr.LogRaw("drv", "quiesce", fmt.Sprintf(`"ok":false,"why":%q`, why))
	return false
}
