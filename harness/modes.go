package main

// Mode S (spec -> code) for the filtered subscription: replays every stimulus
// order that TLC enumerated from spec/ModeS.tla on the real filterSubscription
// over a driver-controlled parent (a real cache and a real subscription, the
// fixture of the repository's own in-package tests), with a quiescence barrier
// after each stimulus, and records what is observable after the last stimulus
// next to the specification's prediction.  trace/ModeSRecords.tla compares.

import (
	"bufio"
	"context"
	"encoding/json"
	"flag"
	"fmt"
	"os"
	"sort"
	"strings"
	"time"

	"github.com/boz/kcache"
	metav1 "k8s.io/apimachinery/pkg/apis/meta/v1"
)

func init() { commands["modes"] = modesMain }

type behaviour struct {
	Deferred bool            `json:"deferred"`
	Stim     []string        `json:"stim"`
	Obs      json.RawMessage `json:"obs"`
}

var modesMut = []struct {
	k   string
	l   int
	del bool
}{{"a", 1, false}, {"b", 0, false}, {"a", 0, false}, {"b", 1, false}, {"a", 0, true}, {"b", 1, false}}
var modesFlt = []string{"null", "lx0", "lx1", "all", "fnx0", "nlx1"}

func modesMain(args []string) int {
	fs := flag.NewFlagSet("modes", flag.ExitOnError)
	in := fs.String("in", "", "behaviours (ndjson, one per line, as printed by TLC from ModeS.tla)")
	out := fs.String("out", "", "output ndjson file")
	shards := fs.Int("shards", 1, "")
	shard := fs.Int("shard", 0, "")
	fs.Parse(args)
	theTracer.End()
	f, err := os.Open(*in)
	if err != nil {
		fmt.Fprintln(os.Stderr, err)
		return 2
	}
	w := newNDWriter(*out)
	sc := bufio.NewScanner(f)
	sc.Buffer(make([]byte, 1<<20), 1<<22)
	n, i := 0, 0
	for sc.Scan() {
		i++
		if i%*shards != *shard {
			continue
		}
		var b behaviour
		if err := json.Unmarshal(sc.Bytes(), &b); err != nil {
			fmt.Fprintln(os.Stderr, "bad behaviour line:", err)
			return 2
		}
		replayBehaviour(w, b)
		n++
	}
	w.close()
	fmt.Printf("modes: behaviours=%d lines=%d\n", n, w.n)
	return 0
}

func replayBehaviour(w *ndWriter, b behaviour) {
	log := newLog(nil)
	ctx, cancel := context.WithCancel(context.Background())
	pcache := kcache.VerifNewCache(ctx, log, nil, mkFilter("null"))
	readych := make(chan struct{})
	parentReady := false
	var psub kcache.VerifSubscription
	var node kcache.FilterSubscription
	var held []kcache.Event
	nmut, nflt := 0, 0
	cur := "lx1"
	if b.Deferred {
		cur = "all"
	}
	present := map[string]bool{}
	var lastOut []string
	idle := func() bool { return quiesce(theTracer, 3*time.Second) }
	quiet := true
	for _, s := range b.Stim {
		switch s {
		case "PR":
			if !parentReady {
				parentReady = true
				close(readych)
			}
		case "SU":
			if node == nil {
				psub = kcache.VerifNewSubscription(log, nil, readych, pcache.Reader())
				node = kcache.VerifNewFilterSubscription(log, psub, mkFilter(cur), b.Deferred)
			}
		case "PC":
			m := modesMut[nmut%len(modesMut)]
			nmut++
			var et kcache.EventType
			switch {
			case m.del && !present[m.k]:
				et = ""
			case m.del:
				et = kcache.EventTypeDelete
				delete(present, m.k)
			case present[m.k]:
				et = kcache.EventTypeUpdate
			default:
				et = kcache.EventTypeCreate
				present[m.k] = true
			}
			if et != "" {
				evs, _ := pcache.Update(kcache.NewEvent(et, mkPod(m.k, nmut, m.l)))
				if parentReady {
					held = append(held, evs...) // a ready parent publishes the delta; the driver holds it until PE
				}
			}
		case "PE":
			if len(held) > 0 {
				e := held[0]
				held = held[1:]
				if node != nil {
					psub.Send(e)
				}
			}
		case "RE":
			if node != nil {
				node.Refilter(mkFilter(cur))
			}
		case "RN":
			if node != nil {
				cur = modesFlt[nflt%len(modesFlt)]
				nflt++
				node.Refilter(mkFilter(cur))
			}
		}
		if !idle() {
			quiet = false
		}
		// the observation window of this stimulus
		lastOut = nil
		if node != nil {
			for drained := false; !drained; {
				select {
				case e, ok := <-node.Events():
					if !ok {
						drained = true
						break
					}
					lastOut = append(lastOut, jsEvent(e))
				default:
					drained = true
				}
			}
		}
	}
	exists := node != nil
	ready := false
	var fc []string
	if exists {
		ready = isClosed(node.Ready())
		l, err := node.Cache().List()
		if err == nil {
			sort.Slice(l, func(i, j int) bool { return keyOfMeta(l[i]) < keyOfMeta(l[j]) })
			for _, o := range l {
				fc = append(fc, jsObj(o))
			}
		}
	}
	w.write2(fmt.Sprintf(`{"k":"modes","deferred":%v,"stim":%s,"quiet":%v,"pred":%s,"obs":{"exists":%v,"ready":%v,"fc":[%s],"out":[%s]}}`,
		b.Deferred, jsStrs(b.Stim), quiet, string(b.Obs), exists, ready, strings.Join(fc, ","), strings.Join(lastOut, ",")))
	if psub.Subscription != nil {
		psub.Close()
	}
	cancel()
	if node != nil {
		select {
		case <-node.Done():
		case <-time.After(2 * time.Second):
		}
	}
	<-pcache.Done()
	var _ metav1.Object
}
