package main

// Mode C scenarios over the pub/sub tree (C05 C06 C07 C08 C10 C11 C12 C16 and
// the system-level part of C02): a real controller on the fake API server, a
// tree of Subscribe / SubscribeWithFilter / SubscribeForFilter / Clone /
// CloneWithFilter / CloneForFilter / monitors created at seeded moments of a
// seeded mutation stream, healthy / slow / stalled consumers, refilters and
// closes.  The driver only stimulates and records; spec/trace/TreeTrace.tla
// judges every line.

import (
	"context"
	"flag"
	"fmt"
	"math/rand"
	"os"
	"strings"
	"sync"
	"time"

	"github.com/boz/kcache"
	"github.com/boz/kcache/filter"
	metav1 "k8s.io/apimachinery/pkg/apis/meta/v1"
)

func init() { commands["tree"] = treeMain }

var treeKeys = []string{"a", "b", "c", "d"}

// filters of the same construction that differ in one value
var filterSibling = map[string]string{"lx1": "lx0", "lx0": "lx1", "nsp1": "nsp2", "nsp2": "nsp1", "nnpa": "nnpb", "nnpb": "nnpa", "anx0": "anx1", "anx1": "anx0",
	"nsa": "nnpa", "sel0": "selall", "selall": "sel0", "null": "all", "all": "null"}

var treeFilters = []string{"null", "all", "lx1", "lx0", "fnx0", "nlx1", "nsa", "anx0", "anx1", "nsp1", "nsp2", "nnpa", "nnpb", "sel0", "selall"}

type tnode struct {
	id      int
	kind    string // root sub fsub dsub clone fclone dclone mon
	parent  *tnode
	pub     kcache.Publisher
	sub     kcache.Subscription // what a harness consumer reads (nil for clones / monitors)
	refil   interface{ Refilter(filter.Filter) error }
	closer  interface{ Close() }
	done    <-chan struct{}
	ready   <-chan struct{}
	cache   kcache.CacheReader
	stage   string // trace name of the stage whose output the consumer reads (sub / fsub), or of the publisher for clones
	mode    string // healthy slow stalled none
	mon     kcache.Monitor
	closed  bool
	depth   int
	fname   string
	wg      sync.WaitGroup
	handler *monHandler
	gateMu  sync.Mutex
	gate    chan struct{}
}

type treeScn struct {
	tr     *Tracer
	rng    *rand.Rand
	srv    *FakeServer
	ctl    kcache.Controller
	nodes  []*tnode
	log    *plog
	pert   *perturber
	wgObs  sync.WaitGroup
	wedged bool
	hb     kcache.HandlerBuilder
	hot    bool // shut down in the middle of the traffic: no barrier and no snapshots before the close
}

func (s *treeScn) mkFilter(name string) filter.Filter {
	return s.tr.RegisterFilter(mkFilter(name), name)
}

func (s *treeScn) listOf(c kcache.CacheReader) (string, bool) {
	l, err := c.List()
	if err != nil {
		return "[]", false
	}
	return jsObjs(l), true
}

// observers: Ready() and Done() of every node
func (s *treeScn) observe(n *tnode) {
	s.wgObs.Add(1)
	go func() { // hw_ready
		defer s.wgObs.Done()
		hw_waitReady(s, n)
	}()
	s.wgObs.Add(1)
	go func() {
		defer s.wgObs.Done()
		hw_waitDone(s, n)
	}()
}

func hw_waitReady(s *treeScn, n *tnode) {
	select {
	case <-n.ready:
		// a cache read made once Ready() is observed must already return the synced content
		l, ok := s.listOf(n.cache)
		s.tr.LogRaw(n.stage, "ready", fmt.Sprintf(`"list":%s,"ok":%v,"node":%d`, l, ok, n.id))
	case <-n.done:
	}
}

func hw_waitDone(s *treeScn, n *tnode) {
	<-n.done
	s.tr.LogRaw(n.stage, "done", fmt.Sprintf(`"node":%d`, n.id))
}

func isClosed(ch <-chan struct{}) bool {
	select {
	case <-ch:
		return true
	default:
		return false
	}
}

func (s *treeScn) consume(n *tnode) {
	if n.sub == nil || n.mode == "stalled" || n.mode == "none" {
		return
	}
	n.wg.Add(1)
	go hw_consume(s, n)
}

func hw_consume(s *treeScn, n *tnode) {
	defer n.wg.Done()
	delay := time.Duration(0)
	for {
		n.gateMu.Lock()
		g := n.gate
		n.gateMu.Unlock()
		if g != nil {
			<-g // a pausing consumer: stopped by the driver for a while
		}
		e, ok := <-n.sub.Events()
		if !ok {
			break
		}
		rdy := isClosed(n.ready)
		// reading the cache right after an event must not return an older version
		cv, present := NN, false
		if o, err := n.cache.Get(e.Resource().GetNamespace(), e.Resource().GetName()); err == nil && o != nil {
			cv, present = verModel(o.GetResourceVersion()), true
		}
		s.tr.LogRaw(n.stage, "recv", fmt.Sprintf(`"ev":%s,"rdy":%v,"cv":%d,"cp":%v`, jsEvent(e), rdy, cv, present))
		if n.mode == "slow" || n.mode == "pausing" {
			delay = time.Duration(s.pert.intn(300)) * time.Microsecond
			time.Sleep(delay)
		}
	}
	s.tr.LogRaw(n.stage, "evclosed", fmt.Sprintf(`"node":%d,"donefirst":%v`, n.id, isClosed(n.done)))
}

func (s *treeScn) pauseAll(pause bool) {
	for _, n := range s.nodes {
		if n.mode != "pausing" {
			continue
		}
		n.gateMu.Lock()
		if pause && n.gate == nil {
			n.gate = make(chan struct{})
		} else if !pause && n.gate != nil {
			close(n.gate)
			n.gate = nil
		}
		n.gateMu.Unlock()
	}
	s.tr.LogRaw("drv", "pause", fmt.Sprintf(`"on":%v`, pause))
}

func (p *perturber) intn(n int) int {
	p.mu.Lock()
	defer p.mu.Unlock()
	return p.rng.Intn(n)
}

// drain reads what a stalled consumer's channel holds (non-blocking), at the end.
func (s *treeScn) drain(n *tnode) {
	if n.sub == nil || n.mode != "stalled" {
		return
	}
	for {
		select {
		case e, ok := <-n.sub.Events():
			if !ok {
				s.tr.LogRaw(n.stage, "evclosed", fmt.Sprintf(`"node":%d,"donefirst":%v`, n.id, isClosed(n.done)))
				return
			}
			s.tr.LogRaw(n.stage, "recv", fmt.Sprintf(`"ev":%s,"rdy":%v,"cv":%d,"cp":false,"drain":true`, jsEvent(e), isClosed(n.ready), NN))
		default:
			return
		}
	}
}

// monitor handler: logs entry and exit of every callback
type monHandler struct {
	s     *treeScn
	n     *tnode
	slow  bool
	block chan struct{} // a stalled handler blocks here
	mu    sync.Mutex
	done  <-chan struct{}
	// selfAt > 0: the handler closes its own monitor from inside its selfAt-th callback
	selfAt int
	ncb    int
	mon    kcache.Monitor
}

func (h *monHandler) isDone() bool {
	h.mu.Lock()
	d := h.done
	h.mu.Unlock()
	return d != nil && isClosed(d)
}

func (h *monHandler) cb(kind string, objs string) {
	h.s.tr.LogRaw(h.n.stage, "cb", fmt.Sprintf(`"kind":%q,"ph":"enter","arg":%s,"mdone":%v`, kind, objs, h.isDone()))
	if h.slow {
		time.Sleep(time.Duration(h.s.pert.intn(400)) * time.Microsecond)
	}
	if h.block != nil {
		<-h.block
	}
	if h.n.mode == "pausing" {
		// a handler that is held up by the driver for a while and then catches up on a full buffer
		h.n.gateMu.Lock()
		g := h.n.gate
		h.n.gateMu.Unlock()
		if g != nil {
			<-g
		}
	}
	h.ncb++
	if h.selfAt > 0 && h.ncb == h.selfAt {
		h.mu.Lock()
		m := h.mon
		h.mu.Unlock()
		if m != nil {
			// Close() called from the monitor's own goroutine: it must return, and the monitor must stop
			h.s.tr.LogRaw("drv", "call.close", fmt.Sprintf(`"node":%d,"stage":%q,"how":"self"`, h.n.id, h.n.stage))
			m.Close()
			h.s.tr.LogRaw("drv", "ret.close", fmt.Sprintf(`"node":%d,"timeout":false`, h.n.id))
		}
	}
	h.s.tr.LogRaw(h.n.stage, "cb", fmt.Sprintf(`"kind":%q,"ph":"exit","arg":%s,"mdone":%v`, kind, objs, h.isDone()))
}
func (h *monHandler) OnInitialize(l []metav1.Object) { h.cb("init", jsObjs(l)) }
func (h *monHandler) OnCreate(o metav1.Object)       { h.cb("create", "["+jsObj(o)+"]") }
func (h *monHandler) OnUpdate(o metav1.Object)       { h.cb("update", "["+jsObj(o)+"]") }
func (h *monHandler) OnDelete(o metav1.Object)       { h.cb("delete", "["+jsObj(o)+"]") }

// addNode creates a node of the given kind below publisher node p.
func (s *treeScn) addNode(p *tnode, kind, mode, fname string) *tnode {
	var r *tnode
	if !s.guarded("create-"+kind, len(s.nodes), func() { r = s.addNode1(p, kind, mode, fname) }) {
		return nil
	}
	return r
}

func (s *treeScn) addNode1(p *tnode, kind, mode, fname string) *tnode {
	n := &tnode{id: len(s.nodes), kind: kind, parent: p, mode: mode, depth: p.depth + 1, fname: fname}
	var err error
	callDesc := fmt.Sprintf(`"node":%d,"kind":%q,"parent":%q,"mode":%q,"filter":%q`, n.id, kind, p.stage, mode, fname)
	s.tr.LogRaw("drv", "call.create", callDesc)
	switch kind {
	case "sub":
		var sub kcache.Subscription
		sub, err = p.pub.Subscribe()
		if err == nil {
			n.sub, n.closer, n.done, n.ready, n.cache = sub, sub, sub.Done(), sub.Ready(), sub.Cache()
			n.stage = s.tr.NameOf(sub)
		}
	case "fsub", "dsub":
		var fs kcache.FilterSubscription
		if kind == "fsub" {
			fs, err = p.pub.SubscribeWithFilter(s.mkFilter(fname))
		} else {
			fs, err = p.pub.SubscribeForFilter()
		}
		if err == nil {
			n.sub, n.closer, n.done, n.ready, n.cache, n.refil = fs, fs, fs.Done(), fs.Ready(), fs.Cache(), fs
			n.stage = s.tr.NameOf(fs)
		}
	case "clone":
		var c kcache.Controller
		c, err = p.pub.Clone()
		if err == nil {
			n.pub, n.closer, n.done, n.ready, n.cache = c, c, c.Done(), c.Ready(), c.Cache()
			n.stage = s.tr.NameOf(c)
			n.mode = "none"
		}
	case "fclone", "dclone":
		var c kcache.FilterController
		if kind == "fclone" {
			c, err = p.pub.CloneWithFilter(s.mkFilter(fname))
		} else {
			c, err = p.pub.CloneForFilter()
		}
		if err == nil {
			n.pub, n.closer, n.done, n.ready, n.cache, n.refil = c, c, c.Done(), c.Ready(), c.Cache(), c
			fs, pub := kcache.VerifUnwrap(c)
			n.stage = s.tr.NameOf(pub)
			callDesc += fmt.Sprintf(`,"fsub":%q`, s.tr.NameOf(fs))
			n.mode = "none"
		}
	case "mon":
		h := &monHandler{s: s, n: n, slow: mode == "slow"}
		if mode == "stalled" {
			h.block = make(chan struct{})
		}
		if mode == "selfclose" {
			h.selfAt = 1 + s.rng.Intn(4)
		}
		// the stage name must be known before the first callback can fire
		n.stage = fmt.Sprintf("monnode%d", n.id)
		var m kcache.Monitor
		var hh kcache.Handler = h
		if s.rng.Intn(2) == 0 {
			// through the library's handler builder, one builder for all monitors of the scenario: a handler
			// made by Create() is a value of its own, later use of the builder does not reach it
			if s.hb == nil {
				s.hb = kcache.BuildHandler()
			}
			hh = s.hb.OnInitialize(h.OnInitialize).OnCreate(h.OnCreate).OnUpdate(h.OnUpdate).OnDelete(h.OnDelete).Create()
		}
		m, err = kcache.NewMonitor(p.pub, hh)
		if err == nil {
			n.mon, n.closer, n.done = m, m, m.Done()
			n.handler = h
			h.mu.Lock()
			h.done = m.Done()
			h.mon = m
			h.mu.Unlock()
			n.ready = p.ready
			n.cache = p.cache
			callDesc += fmt.Sprintf(`,"mon":%q,"msub":%q`, s.tr.NameOf(m), s.tr.NameOf(kcache.VerifMonitorSub(m)))
		}
	}
	if err != nil {
		s.tr.LogRaw("drv", "ret.create", callDesc+fmt.Sprintf(`,"err":%q`, err.Error()))
		return nil
	}
	s.tr.LogRaw("drv", "ret.create", callDesc+fmt.Sprintf(`,"err":"","stage":%q`, n.stage))
	s.nodes = append(s.nodes, n)
	if kind != "mon" {
		s.observe(n)
	} else {
		s.wgObs.Add(1)
		go func() { defer s.wgObs.Done(); hw_waitDone(s, n) }()
	}
	s.consume(n)
	return n
}

func (s *treeScn) publishers() []*tnode {
	var r []*tnode
	for _, n := range s.nodes {
		if n.pub != nil && !n.closed && n.depth < 4 {
			r = append(r, n)
		}
	}
	return r
}

func (s *treeScn) mutate() {
	k := treeKeys[s.rng.Intn(len(treeKeys))]
	if s.rng.Intn(5) == 0 && s.srv.Has(k) {
		s.srv.Delete(k)
	} else {
		s.srv.Set(k, s.rng.Intn(2))
	}
}

func treeMain(args []string) int {
	fs := flag.NewFlagSet("tree", flag.ExitOnError)
	out := fs.String("out", "", "output ndjson file")
	seed := fs.Int64("seed", 1, "")
	count := fs.Int("count", 10, "number of scenarios")
	variant := fs.String("variant", "mixed", "mixed | overflow | close | monitor | refilter")
	events := fs.Int("events", 120, "mutations per scenario (mixed)")
	fs.Parse(args)

	w := newNDWriter(*out)
	done := 0
	for i := 0; i < *count; i++ {
		done++
		if runTreeScenario(w, *seed*100000+int64(i), *variant, *events, i) {
			// zombie goroutines of a scenario that did not terminate would pollute the next one
			fmt.Printf("tree: stopping after scenario %d (it did not terminate cleanly; recorded in the trace)\n", i)
			break
		}
	}
	w.close()
	fmt.Printf("tree: scenarios=%d variant=%s lines=%d late=%d\n", done, *variant, w.n, theTracer.late)
	return 0
}

func runTreeScenario(w *ndWriter, seed int64, variant string, nEvents int, idx int) bool {
	rng := rand.New(rand.NewSource(seed))
	tr := theTracer
	run := fmt.Sprintf("%s-%d", variant, seed)
	tr.Begin(w, run)
	var univ []MObj
	for _, k := range treeKeys {
		for l := 0; l < 2; l++ {
			univ = append(univ, MObj{k, 1, l})
		}
	}
	tr.SetUniverse(univ)
	pert := newPerturber(seed, []int{0, 3, 10}[rng.Intn(3)])
	s := &treeScn{tr: tr, rng: rng, pert: pert}
	s.srv = NewFakeServer(tr)
	s.srv.Converged = true // the watch is healthy: at quiescence the cache must equal the server
	// a pointer-reusing source, strictly one change at a time, below plain (unfiltered) nodes
	inplace := variant == "mixed" && rng.Intn(6) == 0
	s.srv.InPlace = inplace
	ctlFilter := "null"
	if rng.Intn(4) == 0 && !inplace {
		ctlFilter = []string{"lx1", "nsa", "nlx1"}[rng.Intn(3)]
	}
	tr.LogRaw("drv", "begin", fmt.Sprintf(`"run":%q,"variant":%q,"seed":%d,"buf":%d,"keys":["a","b","c","d"],"ctlfilter":%q,"perturb":%d`, run, variant, seed, kcache.EventBufsiz, ctlFilter, pert.rate))
	for i := 0; i < 1+rng.Intn(4); i++ {
		s.srv.Set(treeKeys[rng.Intn(len(treeKeys))], rng.Intn(2))
	}
	firstGate := make(chan struct{})
	earlyClose := false
	gated := rng.Intn(2) == 0 && !inplace
	if gated {
		s.srv.lists = []ListAct{{Gate: firstGate}}
	}
	ctx, cancel := context.WithCancel(context.Background())
	defer cancel()
	b := kcache.NewBuilder().Context(ctx).Log(newLog(pert)).Client(s.srv).Filter(s.mkFilter(ctlFilter))
	b.Lister().RefreshPeriod(time.Hour)
	ctl, err := b.Create()
	if err != nil {
		fmt.Fprintln(os.Stderr, "create:", err)
		os.Exit(2)
	}
	s.ctl = ctl
	root := &tnode{id: 0, kind: "root", pub: ctl, closer: ctl, done: ctl.Done(), ready: ctl.Ready(), cache: ctl.Cache(), stage: tr.NameOf(ctl), mode: "none"}
	s.nodes = append(s.nodes, root)
	s.observe(root)

	kinds := []string{"sub", "sub", "fsub", "dsub", "clone", "fclone", "dclone", "mon"}
	modes := []string{"healthy", "healthy", "healthy", "slow"}
	maxNodes := 4 + rng.Intn(6)
	streamLen := nEvents
	closeProb, refilterProb := 0, 8
	switch variant {
	case "overflow":
		modes = []string{"healthy", "stalled", "pausing", "pausing", "slow", "healthy"}
		streamLen = []int{0, 1, 99, 100, 101, 250, 400, 700}[(idx+int(seed/100000))%8]
		refilterProb = 2
	case "close":
		closeProb = 6
	case "monitor":
		kinds = []string{"mon", "mon", "sub", "clone", "fclone", "mon"}
		closeProb = 3
	case "refilter":
		kinds = []string{"fsub", "dsub", "fclone", "dclone", "sub", "fsub"}
		refilterProb = 25
	}
	// a wide tree: ten or more direct children of the root (a publisher treats many subscribers like few)
	wide := (variant == "mixed" || variant == "close" || variant == "monitor") && rng.Intn(5) == 0
	if wide {
		maxNodes = 10 + rng.Intn(5)
	}
	if inplace {
		kinds = []string{"sub", "sub", "clone", "mon"}
	}
	newNode := func() {
		ps := s.publishers()
		if len(ps) == 0 || len(s.nodes) >= maxNodes+1 {
			return
		}
		p := ps[rng.Intn(len(ps))]
		if wide {
			p = ps[0]
		}
		kind := kinds[rng.Intn(len(kinds))]
		mode := modes[rng.Intn(len(modes))]
		if kind == "mon" && variant != "overflow" && rng.Intn(4) == 0 {
			mode = "selfclose"
		}
		s.addNode(p, kind, mode, treeFilters[rng.Intn(len(treeFilters))])
	}
	if variant == "overflow" {
		// a fixed population that is guaranteed to overflow: filtered nodes with filters that pass (almost) everything
		maxNodes += 9
		s.addNode(root, "sub", "healthy", "null")
		s.addNode(root, "sub", "stalled", "null")
		s.addNode(root, "sub", "pausing", "null")
		s.addNode(root, "fsub", "pausing", "null")
		s.addNode(root, "fsub", "stalled", []string{"null", "nlx1", "lx0"}[rng.Intn(3)])
		if fc := s.addNode(root, "fclone", "none", "null"); fc != nil {
			s.addNode(fc, "sub", []string{"pausing", "stalled", "healthy"}[rng.Intn(3)], "null")
			s.addNode(fc, "fsub", "pausing", "null")
		}
		s.addNode(root, "mon", []string{"stalled", "slow", "pausing", "pausing"}[rng.Intn(4)], "null")
	}
	// some nodes before the controller is ready
	for i := 0; i < rng.Intn(4); i++ {
		newNode()
	}
	if wide {
		for tries := 0; len(s.nodes) < maxNodes-rng.Intn(3) && !s.wedged && tries < 40; tries++ {
			newNode()
		}
	}
	if gated && (variant == "close" || variant == "monitor" || variant == "refilter") && rng.Intn(6) == 0 {
		// the root is closed before its first list completes: nothing ever becomes ready, everything must still stop
		s.randomRefilter(rng, 50)
		earlyClose = true
		gated = false
		tr.LogRaw("drv", "call.close", fmt.Sprintf(`"node":0,"stage":%q,"how":"close-before-ready"`, root.stage))
		go ctl.Close()
	}
	if gated {
		// things that may happen before the first list completes
		for i := 0; i < rng.Intn(3); i++ {
			s.mutate()
		}
		s.randomRefilter(rng, 50)
		close(firstGate)
		if (variant == "close" || variant == "refilter" || variant == "monitor") && rng.Intn(3) == 0 {
			// shut the root down at the very moment it becomes ready: descendants that are just being told
			// "parent ready" find a parent cache that is already stopping
			time.Sleep(time.Duration(rng.Intn(300)) * time.Microsecond)
			earlyClose = true
			tr.LogRaw("drv", "call.close", fmt.Sprintf(`"node":0,"stage":%q,"how":"close-at-ready"`, root.stage))
			go ctl.Close()
		}
	}
	if earlyClose {
		streamLen = 0
		maxNodes = 0
	}
	sinceBarrier := 0
	if inplace {
		// nobody may still be reading objects of the initial state when the source starts rewriting them
		s.barrier("pace")
	}
	for ev := 0; ev < streamLen && !s.wedged; ev++ {
		if variant == "overflow" && streamLen >= 99 {
			if ev == streamLen/4 {
				s.pauseAll(true)
			} else if ev == (2*streamLen)/3 {
				s.pauseAll(false)
			}
		}
		if inplace && ev > 0 {
			s.barrier("pace")
		}
		s.mutate()
		sinceBarrier++
		if inplace {
			// the change has reached every node before anything else happens (and before the next rewrite)
			s.barrier("pace")
			sinceBarrier = 0
		}
		x := rng.Intn(100)
		switch {
		case x < 6:
			newNode()
		case x < 6+refilterProb:
			s.randomRefilter(rng, 100)
		case x < 6+refilterProb+closeProb:
			s.randomClose(rng)
		}
		if sinceBarrier >= 20 {
			// at most 20 (< EventBufsiz/4) events are unacknowledged
			s.barrier("pace")
			sinceBarrier = 0
		} else if rng.Intn(3) == 0 {
			time.Sleep(time.Duration(rng.Intn(150)) * time.Microsecond)
		}
	}
	for tries := 0; len(s.nodes) < 3 && !s.wedged && !earlyClose && tries < 10; tries++ {
		newNode()
		if len(s.publishers()) == 0 {
			break
		}
	}
	stuck, leak := s.finish(root, "close", cancel)
	tr.LogRaw("drv", "end", fmt.Sprintf(`"run":%q`, run))
	tr.End()
	return stuck || leak != 0
}

// guarded runs a driver API call under a watchdog: a call that does not return is recorded and the
// scenario goes straight to its shutdown phase.
func (s *treeScn) guarded(what string, node int, fn func()) bool {
	if s.wedged {
		return false
	}
	ret := make(chan struct{})
	go func() { fn(); close(ret) }()
	select {
	case <-ret:
		return true
	case <-time.After(3 * time.Second):
		s.tr.LogRaw("drv", "blocked", fmt.Sprintf(`"call":%q,"node":%d`, what, node))
		s.wedged = true
		return false
	}
}

// finish takes the snapshots at quiescence, shuts the tree down through the root with the given
// trigger, and records everything the termination properties talk about.
func (s *treeScn) finish(root *tnode, how string, cancel context.CancelFunc) (stuck bool, leak int) {
	tr := s.tr
	ctl := s.ctl
	if !s.hot {
		ok := s.barrier("final")
		if ok {
			// confirmed by a second barrier: what the first one saw at rest is judged at the second
			time.Sleep(2 * time.Millisecond)
			ok = s.barrier("confirm")
		}
		// snapshots at quiescence
		s.srv.LogSnapshot()
		for _, n := range s.nodes {
			if n.kind == "mon" {
				continue
			}
			l, lok := s.listOf(n.cache)
			tr.LogRaw(n.stage, "snap", fmt.Sprintf(`"list":%s,"ok":%v,"node":%d,"quiet":%v,"closed":%v`, l, lok, n.id, ok, n.closed))
		}
		for _, n := range s.nodes {
			s.drain(n)
		}
	}
	// shut everything down through the root and check termination
	tr.LogRaw("drv", "call.close", fmt.Sprintf(`"node":0,"stage":%q,"how":%q`, root.stage, how))
	// Refilter calls racing with the shutdown: they return nil or ErrNotRunning, and nothing may be left behind
	for _, n := range s.nodes {
		if n.refil != nil && !n.closed && s.rng.Intn(2) == 0 {
			n := n
			f := s.mkFilter(treeFilters[s.rng.Intn(len(treeFilters))])
			go func() { hw_raceRefilter(n, f) }()
		}
	}
	closeRet := make(chan struct{})
	go func() {
		switch how {
		case "cancel":
			cancel()
			<-ctl.Done()
		case "close3":
			var wg sync.WaitGroup
			for i := 0; i < 3; i++ {
				wg.Add(1)
				go func() { defer wg.Done(); ctl.Close() }()
			}
			wg.Wait()
		case "none": // the controller is expected to have stopped by itself (fatal list error)
			<-ctl.Done()
		default:
			ctl.Close()
		}
		close(closeRet)
	}()
	select {
	case <-closeRet:
		// the controller is done: nothing it started may still be running, in particular no List call
		tr.LogRaw("drv", "done.inflight", fmt.Sprintf(`"lists":%d`, s.srv.InFlight()))
		tr.LogRaw("drv", "ret.close", `"node":0,"timeout":false`)
	case <-time.After(5 * time.Second):
		tr.LogRaw("drv", "ret.close", `"node":0,"timeout":true`)
		stuck = true
	}
	stuck = stuck || s.wedged
	s.pauseAll(false)
	// unblock stalled monitor handlers so that their goroutines can end
	for _, n := range s.nodes {
		if n.handler != nil && n.handler.block != nil {
			close(n.handler.block)
		}
	}
	dctx, dcancel := context.WithTimeout(context.Background(), 5*time.Second)
	defer dcancel()
	for _, n := range s.nodes {
		select {
		case <-n.done:
		case <-dctx.Done():
			tr.LogRaw(n.stage, "timeout", fmt.Sprintf(`"node":%d,"what":"done"`, n.id))
			stuck = true
		}
	}
	obsDone := make(chan struct{})
	go func() { s.wgObs.Wait(); close(obsDone) }()
	select {
	case <-obsDone:
	case <-time.After(3 * time.Second):
	}
	for _, n := range s.nodes {
		cdone := make(chan struct{})
		go func(n *tnode) { n.wg.Wait(); close(cdone) }(n)
		select {
		case <-cdone:
		case <-time.After(3 * time.Second):
			tr.LogRaw(n.stage, "timeout", fmt.Sprintf(`"node":%d,"what":"events-not-closed"`, n.id))
			stuck = true
		}
		s.drain(n)
	}
	// API calls after the root is done must return, not block
	if !stuck {
		stuck = s.afterDone()
	}
	// leak census
	leak = 0
	var sample string
	for i := 0; i < 200; i++ {
		leak, sample = libGoroutineCount()
		if leak == 0 {
			break
		}
		time.Sleep(5 * time.Millisecond)
	}
	if leak != 0 {
		sample = strings.ReplaceAll(sample, "\n", " | ")
		if len(sample) > 600 {
			sample = sample[:600]
		}
	} else {
		sample = ""
	}
	tr.LogRaw("drv", "leak", fmt.Sprintf(`"n":%d,"sample":%q`, leak, sample))
	// what the controller reports at the end
	errs := ""
	if e := ctl.Error(); e != nil {
		errs = e.Error()
	}
	tr.LogRaw(root.stage, "ctl.final", fmt.Sprintf(`"done":%v,"err":%q,"ready":%v,"how":%q`, isClosed(ctl.Done()), errs, isClosed(ctl.Ready()), how))
	return stuck, leak
}

func hw_raceRefilter(n *tnode, f filter.Filter) {
	done := make(chan struct{})
	go func() { n.refil.Refilter(f); close(done) }()
	select {
	case <-done:
	case <-time.After(4 * time.Second):
	}
}

func (s *treeScn) barrier(why string) bool {
	ok := quiesce(s.tr, 3*time.Second)
	s.tr.LogRaw("drv", "quiesce", fmt.Sprintf(`"ok":%v,"why":%q`, ok, why))
	return ok
}

func (s *treeScn) randomRefilter(rng *rand.Rand, pct int) {
	var c []*tnode
	for _, n := range s.nodes {
		if n.refil != nil && !n.closed {
			c = append(c, n)
		}
	}
	if len(c) == 0 || rng.Intn(100) >= pct {
		return
	}
	n := c[rng.Intn(len(c))]
	fname := treeFilters[rng.Intn(len(treeFilters))]
	if sib, ok := filterSibling[n.fname]; ok && rng.Intn(3) == 0 {
		// a filter of the same shape that differs in one detail: the most likely one to be mistaken for "unchanged"
		fname = sib
	}
	st := n.stage
	s.tr.LogRaw("drv", "call.refilter", fmt.Sprintf(`"node":%d,"stage":%q,"filter":%q`, n.id, st, fname))
	var err error
	f := s.mkFilter(fname)
	if !s.guarded("Refilter", n.id, func() { err = n.refil.Refilter(f) }) {
		return
	}
	es := ""
	if err != nil {
		es = err.Error()
	}
	s.tr.LogRaw("drv", "ret.refilter", fmt.Sprintf(`"node":%d,"err":%q,"stage":%q,"filter":%q`, n.id, es, st, fname))
	prev := n.fname
	n.fname = fname
	if err == nil && prev != "" && rng.Intn(3) == 0 {
		// straight back to the previous filter, while the node may still be busy with the first request
		s.tr.LogRaw("drv", "call.refilter", fmt.Sprintf(`"node":%d,"stage":%q,"filter":%q`, n.id, st, prev))
		f2 := s.mkFilter(prev)
		var err2 error
		if !s.guarded("Refilter", n.id, func() { err2 = n.refil.Refilter(f2) }) {
			return
		}
		es2 := ""
		if err2 != nil {
			es2 = err2.Error()
		}
		s.tr.LogRaw("drv", "ret.refilter", fmt.Sprintf(`"node":%d,"err":%q,"stage":%q,"filter":%q`, n.id, es2, st, prev))
		if err2 == nil {
			n.fname = prev
		}
	}
}

func (s *treeScn) randomClose(rng *rand.Rand) {
	var c []*tnode
	for _, n := range s.nodes {
		if n.id != 0 && !n.closed {
			c = append(c, n)
		}
	}
	if len(c) == 0 {
		return
	}
	n := c[rng.Intn(len(c))]
	s.tr.LogRaw("drv", "call.close", fmt.Sprintf(`"node":%d,"stage":%q,"how":"close"`, n.id, n.stage))
	if !s.guarded("Close", n.id, func() { n.closer.Close() }) {
		return
	}
	s.tr.LogRaw("drv", "ret.close", fmt.Sprintf(`"node":%d,"timeout":false`, n.id))
	// everything below a closed publisher node is closed too (bookkeeping for the driver only)
	var mark func(x *tnode)
	mark = func(x *tnode) {
		x.closed = true
		for _, y := range s.nodes {
			if y.parent == x && !y.closed {
				mark(y)
			}
		}
	}
	mark(n)
}

// afterDone issues every API call on every node after the root is done; each
// must return (ErrNotRunning or a result) instead of blocking.
func (s *treeScn) afterDone() (blocked bool) {
	type call struct {
		name string
		fn   func() error
	}
	for _, n := range s.nodes {
		var calls []call
		n := n
		if n.pub != nil {
			calls = append(calls,
				call{"Subscribe", func() error { _, e := n.pub.Subscribe(); return e }},
				call{"SubscribeWithFilter", func() error { _, e := n.pub.SubscribeWithFilter(filter.Null()); return e }},
				call{"SubscribeForFilter", func() error { _, e := n.pub.SubscribeForFilter(); return e }},
				call{"Clone", func() error { _, e := n.pub.Clone(); return e }},
				call{"CloneWithFilter", func() error { _, e := n.pub.CloneWithFilter(filter.Null()); return e }},
				call{"CloneForFilter", func() error { _, e := n.pub.CloneForFilter(); return e }})
		}
		if n.refil != nil {
			calls = append(calls, call{"Refilter", func() error { return n.refil.Refilter(filter.All()) }})
		}
		if n.cache != nil {
			calls = append(calls,
				call{"List", func() error { _, e := n.cache.List(); return e }},
				call{"Get", func() error { _, e := n.cache.Get("ns1", "a"); return e }})
		}
		calls = append(calls, call{"Close", func() error { n.closer.Close(); return nil }})
		for _, c := range calls {
			ret := make(chan string, 1)
			go func() {
				defer func() {
					if r := recover(); r != nil {
						ret <- fmt.Sprintf("panic: %v", r)
					}
				}()
				err := c.fn()
				if err == nil {
					ret <- "ok"
				} else if strings.Contains(err.Error(), "Not running") {
					ret <- "notrunning"
				} else {
					ret <- "err:" + err.Error()
				}
			}()
			select {
			case r := <-ret:
				s.tr.LogRaw(n.stage, "after", fmt.Sprintf(`"call":%q,"res":%q,"node":%d`, c.name, r, n.id))
			case <-time.After(2 * time.Second):
				s.tr.LogRaw(n.stage, "after", fmt.Sprintf(`"call":%q,"res":"blocked","node":%d`, c.name, n.id))
				return true
			}
		}
	}
	return false
}
