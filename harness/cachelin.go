package main

// C15: cache reads are atomic snapshots, linearizable with updates.  A writer
// alternates the real cache actor between distinguishable complete states
// through multi-object sync / refilter / update; 1..8 reader goroutines call
// List and Get concurrently, log call and return, scribble over the returned
// slice (it belongs to the caller) and re-check slices they kept.  The cache
// goroutine's own hook lines give the order of the writes; TreeTrace.tla
// requires every returned value to equal the cache content at some point
// between the call line and the return line.

import (
	"context"
	"flag"
	"fmt"
	"math/rand"
	"sync"
	"sync/atomic"
	"time"

	"github.com/boz/kcache"
	metav1 "k8s.io/apimachinery/pkg/apis/meta/v1"
)

func init() { commands["cachelin"] = cachelinMain }

func cachelinMain(args []string) int {
	fs := flag.NewFlagSet("cachelin", flag.ExitOnError)
	out := fs.String("out", "", "output ndjson file")
	seed := fs.Int64("seed", 1, "")
	count := fs.Int("count", 4, "scenarios")
	ops := fs.Int("ops", 300, "writer operations per scenario")
	fs.Parse(args)
	w := newNDWriter(*out)
	total := 0
	for i := 0; i < *count; i++ {
		total += runCachelin(w, *seed*1000+int64(i), *ops, []int{1, 2, 4, 8}[i%4])
	}
	w.close()
	fmt.Printf("cachelin: scenarios=%d reads=%d lines=%d\n", *count, total, w.n)
	return 0
}

func runCachelin(w *ndWriter, seed int64, nops int, nreaders int) int {
	rng := rand.New(rand.NewSource(seed))
	tr := theTracer
	tr.Begin(w, fmt.Sprintf("cachelin-%d", seed))
	tr.LogRaw("drv", "begin", fmt.Sprintf(`"run":"cachelin-%d","variant":"cachelin","seed":%d,"buf":%d,"keys":["a","b","c","d"],"readers":%d`, seed, seed, kcache.EventBufsiz, nreaders))
	pert := newPerturber(seed, []int{0, 2, 5}[rng.Intn(3)])
	ctx, cancel := context.WithCancel(context.Background())
	f0 := treeFilters[rng.Intn(len(treeFilters))]
	cache := kcache.VerifNewCache(ctx, newLog(pert), nil, tr.RegisterFilter(mkFilter(f0), f0))
	cname := tr.NameOf(cache)

	var stop int32
	var reads int64
	var wg sync.WaitGroup
	for r := 0; r < nreaders; r++ {
		wg.Add(1)
		go func(r int) {
			defer wg.Done()
			hw_reader(tr, cache, cname, r, seed, &stop, &reads)
		}(r)
	}
	// writer: complete states A / B / C differ in every key, so a torn read is visible
	version := 1
	mk := func(label int, keys []string) []metav1.Object {
		var l []metav1.Object
		for _, k := range keys {
			version++
			l = append(l, mkPod(k, version, label))
		}
		return l
	}
	for i := 0; i < nops; i++ {
		// one driver-level operation is one atomic step of the cache: exactly one mutation line between call and return
		tr.LogRaw("writer", "wr.call", fmt.Sprintf(`"cache":%q,"n":%d`, cname, i))
		switch rng.Intn(6) {
		case 0, 1:
			keys := [][]string{{"a", "b", "c", "d"}, {"a", "b"}, {"c", "d"}, {}, {"a", "c", "d"}}[rng.Intn(5)]
			cache.Sync(mk(rng.Intn(2), keys))
		case 2:
			fn := treeFilters[rng.Intn(len(treeFilters))]
			keys := [][]string{{"a", "b", "c", "d"}, {"b", "c"}, {}}[rng.Intn(3)]
			cache.Refilter(mk(rng.Intn(2), keys), tr.RegisterFilter(mkFilter(fn), fn))
		default:
			version++
			et := []kcache.EventType{kcache.EventTypeCreate, kcache.EventTypeUpdate, kcache.EventTypeDelete}[rng.Intn(3)]
			cache.Update(kcache.NewEvent(et, mkPod(treeKeys[rng.Intn(4)], version, rng.Intn(2))))
		}
		tr.LogRaw("writer", "wr.ret", fmt.Sprintf(`"cache":%q,"n":%d`, cname, i))
		if rng.Intn(2) == 0 {
			// the writer reads right after its own acknowledged write: it must see it
			tr.LogRaw("writer", "rd.call", fmt.Sprintf(`"op":"list","cache":%q,"n":%d,"k":""`, cname, i))
			l, err := cache.List()
			tr.LogRaw("writer", "rd.ret", fmt.Sprintf(`"op":"list","cache":%q,"n":%d,"list":%s,"err":%v,"keep":false`, cname, i, jsObjs(l), err != nil))
		}
		if rng.Intn(4) == 0 {
			time.Sleep(time.Duration(rng.Intn(100)) * time.Microsecond)
		}
	}
	atomic.StoreInt32(&stop, 1)
	wg.Wait()
	cancel()
	<-cache.Done()
	tr.LogRaw("drv", "end", `"run":"cachelin"`)
	tr.End()
	return int(atomic.LoadInt64(&reads))
}

// listGetter is what a reader needs of a cache (kcache.VerifCache and every kcache.CacheReader have it).
type listGetter interface {
	Get(ns string, name string) (metav1.Object, error)
	List() ([]metav1.Object, error)
}

func hw_reader(tr *Tracer, cache listGetter, cname string, r int, seed int64, stop *int32, reads *int64) {
	hw_readerPaced(tr, cache, cname, r, seed, stop, reads, 0)
}

// hw_readerPaced: pace > 0 spaces the reads (a reader next to a real-time controller scenario).
func hw_readerPaced(tr *Tracer, cache listGetter, cname string, r int, seed int64, stop *int32, reads *int64, pace time.Duration) {
	rng := rand.New(rand.NewSource(seed*31 + int64(r)))
	me := fmt.Sprintf("reader%d", r)
	var kept []metav1.Object
	keptAt := 0
	n := 0
	for atomic.LoadInt32(stop) == 0 {
		n++
		if rng.Intn(3) == 0 {
			k := treeKeys[rng.Intn(4)]
			nn := keyNS[k]
			tr.LogRaw(me, "rd.call", fmt.Sprintf(`"op":"get","cache":%q,"n":%d,"k":%q`, cname, n, k))
			o, err := cache.Get(nn[0], nn[1])
			tr.LogRaw(me, "rd.ret", fmt.Sprintf(`"op":"get","cache":%q,"n":%d,"k":%q,"o":%s,"present":%v,"err":%v`, cname, n, k, jsObj(o), o != nil, err != nil))
		} else {
			tr.LogRaw(me, "rd.call", fmt.Sprintf(`"op":"list","cache":%q,"n":%d,"k":""`, cname, n))
			l, err := cache.List()
			willKeep := err == nil && kept == nil && rng.Intn(3) == 0
			tr.LogRaw(me, "rd.ret", fmt.Sprintf(`"op":"list","cache":%q,"n":%d,"list":%s,"err":%v,"keep":%v`, cname, n, jsObjs(l), err != nil, willKeep))
			if kept != nil && rng.Intn(2) == 0 {
				// a slice returned earlier belongs to this caller: it must still hold what it held
				tr.LogRaw(me, "rd.recheck", fmt.Sprintf(`"n":%d,"list":%s`, keptAt, jsObjs(kept)))
				kept = nil
			}
			if err == nil {
				if willKeep {
					kept, keptAt = l, n
				} else {
					// scribble: reverse and nil out; must not disturb the cache or other readers
					for i, j := 0, len(l)-1; i < j; i, j = i+1, j-1 {
						l[i], l[j] = l[j], l[i]
					}
					for i := range l {
						if rng.Intn(2) == 0 {
							l[i] = nil
						}
					}
				}
			}
		}
		atomic.AddInt64(reads, 1)
		if pace > 0 {
			time.Sleep(pace/2 + time.Duration(rng.Int63n(int64(pace))))
		}
		if rng.Intn(8) == 0 {
			time.Sleep(time.Duration(rng.Intn(50)) * time.Microsecond)
		}
	}
}
