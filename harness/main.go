// Command harness drives the real boz/kcache code (built from /repo with
// -tags verif) and records what it did as ndjson; every verdict about a
// property is taken by TLC from those records (see /verif/DESIGN.md).
package main

import (
	"fmt"
	"os"
)

var commands = map[string]func(args []string) int{}

func main() {
	if len(os.Args) < 2 {
		fmt.Fprintln(os.Stderr, "usage: harness <command> [flags]")
		os.Exit(2)
	}
	cmd, ok := commands[os.Args[1]]
	if !ok {
		fmt.Fprintf(os.Stderr, "unknown command %q\n", os.Args[1])
		os.Exit(2)
	}
	os.Exit(cmd(os.Args[2:]))
}
