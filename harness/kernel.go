package main

// C01 / C02: every transition of the cache kernel universe, executed on the
// real cache actor.  For each (filter, content) state of the universe and each
// operation (sync / refilter with every list up to MaxList, update with every
// event) the real cache is brought to the state, the operation is applied and
// List(), Get(k) for every key and the returned events are recorded.  TLC
// (spec/trace/CacheRecords.tla) judges every record.

import (
	"context"
	"flag"
	"fmt"
	"os"
	"sort"
	"strconv"
	"strings"
	"sync/atomic"
	"time"

	"github.com/boz/kcache"
	metav1 "k8s.io/apimachinery/pkg/apis/meta/v1"
)

func init() { commands["kernel"] = kernelMain }

type kEntry struct {
	P    bool
	V, L int
}

func (e kEntry) json() string {
	p := 0
	if e.P {
		p = 1
	}
	return fmt.Sprintf("[%d,%d,%d]", p, e.V, e.L)
}

type kState struct {
	F  string
	It []kEntry // by key index
}

type kUniverse struct {
	keys     []string
	versions []int
	labels   []int
	filters  []string
	maxList  int
	objects  []MObj
	lists    [][]MObj
}

func parseInts(s string) []int {
	var r []int
	for _, x := range strings.Split(s, ",") {
		n, err := strconv.Atoi(strings.TrimSpace(x))
		if err != nil {
			panic(err)
		}
		r = append(r, n)
	}
	return r
}

func (u *kUniverse) build() {
	for _, k := range u.keys {
		for _, v := range u.versions {
			for _, l := range u.labels {
				u.objects = append(u.objects, MObj{k, v, l})
			}
		}
	}
	u.lists = [][]MObj{{}}
	prev := [][]MObj{{}}
	for n := 1; n <= u.maxList; n++ {
		var next [][]MObj
		for _, p := range prev {
			for _, o := range u.objects {
				l := append(append([]MObj{}, p...), o)
				next = append(next, l)
			}
		}
		u.lists = append(u.lists, next...)
		prev = next
	}
}

// states enumerates every (filter, content) whose content the real filter accepts.
func (u *kUniverse) states() []kState {
	var out []kState
	for _, f := range u.filters {
		rf := mkFilter(f)
		// per key options
		opts := make([][]kEntry, len(u.keys))
		for i, k := range u.keys {
			opts[i] = []kEntry{{}}
			for _, v := range u.versions {
				if v == NN {
					continue
				}
				for _, l := range u.labels {
					if rf.Accept(mkPod(k, v, l)) {
						opts[i] = append(opts[i], kEntry{true, v, l})
					}
				}
			}
		}
		idx := make([]int, len(u.keys))
		for {
			it := make([]kEntry, len(u.keys))
			for i := range idx {
				it[i] = opts[i][idx[i]]
			}
			out = append(out, kState{f, it})
			i := 0
			for ; i < len(idx); i++ {
				idx[i]++
				if idx[i] < len(opts[i]) {
					break
				}
				idx[i] = 0
			}
			if i == len(idx) {
				break
			}
		}
	}
	return out
}

type kRunner struct {
	u       *kUniverse
	w       *ndWriter
	careful bool
	cache   kcache.VerifCache
	cancel  context.CancelFunc
	curOp   atomic.Value // string: JSON prefix of the op in flight
	prog    int64
	nrec    int
}

func (r *kRunner) newCache(f string) {
	if r.cancel != nil {
		r.cancel()
	}
	ctx, cancel := context.WithCancel(context.Background())
	r.cancel = cancel
	r.cache = kcache.VerifNewCache(ctx, newLog(nil), nil, mkFilter(f))
}

func podsOf(l []MObj) []metav1.Object {
	r := make([]metav1.Object, 0, len(l))
	for _, o := range l {
		r = append(r, mkPod(o.K, o.V, o.L))
	}
	return r
}

// observe reads List() and Get(k) of the real cache.
func (r *kRunner) observe() (post, get []kEntry, anom string) {
	post = make([]kEntry, len(r.u.keys))
	get = make([]kEntry, len(r.u.keys))
	lst, err := r.cache.List()
	if err != nil {
		return post, get, "list-error:" + err.Error()
	}
	seen := map[string]bool{}
	for _, o := range lst {
		m, ok := modelOf(o)
		if !ok {
			anom += "list-unknown-object;"
			continue
		}
		if seen[m.K] {
			anom += "list-duplicate-key;"
		}
		seen[m.K] = true
		ki := r.keyIndex(m.K)
		if ki < 0 {
			anom += "list-foreign-key;"
			continue
		}
		post[ki] = kEntry{true, m.V, m.L}
	}
	for i, k := range r.u.keys {
		nn := keyNS[k]
		o, err := r.cache.Get(nn[0], nn[1])
		if err != nil {
			anom += "get-error;"
			continue
		}
		if o == nil {
			continue
		}
		m, ok := modelOf(o)
		if !ok || m.K != k {
			anom += "get-wrong-object;"
			continue
		}
		get[i] = kEntry{true, m.V, m.L}
	}
	return
}

func (r *kRunner) keyIndex(k string) int {
	for i, x := range r.u.keys {
		if x == k {
			return i
		}
	}
	return -1
}

func (r *kRunner) itJSON(it []kEntry) string {
	var b strings.Builder
	b.WriteByte('{')
	for i, k := range r.u.keys {
		if i > 0 {
			b.WriteByte(',')
		}
		fmt.Fprintf(&b, "%q:%s", k, it[i].json())
	}
	b.WriteByte('}')
	return b.String()
}

func listJSON(l []MObj) string {
	var b strings.Builder
	b.WriteByte('[')
	for i, o := range l {
		if i > 0 {
			b.WriteByte(',')
		}
		fmt.Fprintf(&b, "[%q,%d,%d]", o.K, o.V, o.L)
	}
	b.WriteByte(']')
	return b.String()
}

func evsJSON(evs []kcache.Event) (string, string) {
	var b strings.Builder
	anom := ""
	b.WriteByte('[')
	for i, e := range evs {
		if i > 0 {
			b.WriteByte(',')
		}
		m, ok := modelOf(e.Resource())
		if !ok {
			anom += "event-unknown-object;"
		}
		fmt.Fprintf(&b, "[%q,%q,%d,%d]", evName(e.Type()), m.K, m.V, m.L)
	}
	b.WriteByte(']')
	return b.String(), anom
}

func sameIt(a, b []kEntry) bool {
	for i := range a {
		if a[i] != b[i] {
			return false
		}
	}
	return true
}

func (r *kRunner) emit(line string) {
	r.w.mu.Lock()
	r.w.w.WriteString(line)
	r.w.w.WriteByte('\n')
	r.w.n++
	r.w.mu.Unlock()
	r.nrec++
}

// reset brings the real cache to state s with two operations of the universe.
func (r *kRunner) reset(s kState) string {
	rf := mkFilter(s.F)
	if _, err := r.cache.Refilter(nil, rf); err != nil {
		return "setup-error"
	}
	var l []MObj
	for i, e := range s.It {
		if e.P {
			l = append(l, MObj{r.u.keys[i], e.V, e.L})
		}
	}
	if _, err := r.cache.Refilter(podsOf(l), rf); err != nil {
		return "setup-error"
	}
	post, _, anom := r.observe()
	if anom != "" || !sameIt(post, s.It) {
		return "setup-state-not-reached"
	}
	return ""
}

func (r *kRunner) runState(s kState) {
	r.newCache(s.F)
	dirty := true
	pre := r.itJSON(s.It)
	do := func(opjson string, apply func() ([]kcache.Event, error), changesFilter bool) {
		head := fmt.Sprintf(`{"f":%q,"pre":%s,%s`, s.F, pre, opjson)
		if dirty {
			if a := r.reset(s); a != "" {
				r.emit(head + fmt.Sprintf(`,"anom":%q}`, a))
				r.newCache(s.F)
				return
			}
			dirty = false
		}
		r.curOp.Store(head)
		if r.careful {
			r.emit(head + `,"intent":1}`)
			r.w.flush()
		}
		evs, err := apply()
		atomic.AddInt64(&r.prog, 1)
		anom := ""
		if err != nil {
			anom = "op-error:" + err.Error() + ";"
		}
		post, get, a2 := r.observe()
		anom += a2
		ej, a3 := evsJSON(evs)
		anom += a3
		r.emit(head + fmt.Sprintf(`,"post":%s,"get":%s,"ev":%s,"anom":%q}`, r.itJSON(post), r.itJSON(get), ej, anom))
		if changesFilter || !sameIt(post, s.It) || anom != "" {
			dirty = true
		}
	}
	for _, l := range r.u.lists {
		l := l
		do(fmt.Sprintf(`"op":"sync","list":%s`, listJSON(l)), func() ([]kcache.Event, error) {
			return r.cache.Sync(podsOf(l))
		}, false)
	}
	for _, nf := range r.u.filters {
		for _, l := range r.u.lists {
			l, nf := l, nf
			do(fmt.Sprintf(`"op":"refilter","nf":%q,"list":%s`, nf, listJSON(l)), func() ([]kcache.Event, error) {
				return r.cache.Refilter(podsOf(l), mkFilter(nf))
			}, true)
		}
	}
	for _, et := range []kcache.EventType{kcache.EventTypeCreate, kcache.EventTypeUpdate, kcache.EventTypeDelete} {
		for _, o := range r.u.objects {
			o, et := o, et
			do(fmt.Sprintf(`"op":%q,"o":[%q,%d,%d]`, string(et), o.K, o.V, o.L), func() ([]kcache.Event, error) {
				return r.cache.Update(kcache.NewEvent(et, mkPod(o.K, o.V, o.L)))
			}, false)
		}
	}
}

func kernelMain(args []string) int {
	fs := flag.NewFlagSet("kernel", flag.ExitOnError)
	out := fs.String("out", "", "output ndjson file")
	shards := fs.Int("shards", 1, "number of shards")
	shard := fs.Int("shard", 0, "this shard")
	keys := fs.String("keys", "a,b", "")
	versions := fs.String("versions", "-99,-1,0,1,2", "")
	labels := fs.String("labels", "0,1", "")
	filters := fs.String("filters", "null,all,lx1,nsa", "")
	maxList := fs.Int("maxlist", 2, "")
	careful := fs.Bool("careful", false, "flush an intent line before every operation (crash localisation)")
	fs.Parse(args)

	u := &kUniverse{keys: strings.Split(*keys, ","), versions: parseInts(*versions), labels: parseInts(*labels),
		filters: strings.Split(*filters, ","), maxList: *maxList}
	u.build()
	states := u.states()
	sort.SliceStable(states, func(i, j int) bool { return false })

	r := &kRunner{u: u, w: newNDWriter(*out), careful: *careful}
	r.curOp.Store("")

	// watchdog: an operation that does not return is a wedged cache
	go func() {
		last := int64(-1)
		stuck := 0
		for {
			time.Sleep(2 * time.Second)
			p := atomic.LoadInt64(&r.prog)
			if p == last {
				stuck++
			} else {
				stuck = 0
			}
			last = p
			if stuck >= 5 {
				head, _ := r.curOp.Load().(string)
				if head != "" {
					r.emit(head + `,"wedge":1}`)
				}
				r.w.flush()
				fmt.Fprintln(os.Stderr, "WEDGED", head)
				os.Exit(3)
			}
		}
	}()

	n := 0
	for i, s := range states {
		if i%*shards != *shard {
			continue
		}
		r.runState(s)
		n++
	}
	r.w.close()
	fmt.Printf("kernel shard %d/%d: states=%d (of %d) records=%d lists=%d objects=%d\n", *shard, *shards, n, len(states), r.nrec, len(u.lists), len(u.objects))
	return 0
}
