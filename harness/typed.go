package main

// C20: typed packages are faithful instances of the generic core.
//  (a) behaviour: for each of the 12 typed packages the same seeded scenario is
//      run through the typed controller and through the untyped kcache
//      controller on one fake server that also serves an object of another
//      type; events, cache listings, readiness and monitor callbacks of both
//      are recorded side by side;
//  (b) requests: each typed client lists and watches through an in-memory
//      HTTP transport that records path and query.
// spec/trace/TypedRecords.tla judges the records.

import (
	"bytes"
	"context"
	"flag"
	"fmt"
	"io"
	"k8s.io/apimachinery/pkg/api/meta"
	"math/rand"
	"net/http"
	"reflect"
	"sort"
	"strconv"
	"strings"
	"sync"
	"time"

	"github.com/boz/kcache"
	"github.com/boz/kcache/client"
	"github.com/boz/kcache/types/daemonset"
	"github.com/boz/kcache/types/deployment"
	"github.com/boz/kcache/types/event"
	"github.com/boz/kcache/types/ingress"
	"github.com/boz/kcache/types/job"
	"github.com/boz/kcache/types/node"
	"github.com/boz/kcache/types/pod"
	"github.com/boz/kcache/types/replicaset"
	"github.com/boz/kcache/types/replicationcontroller"
	"github.com/boz/kcache/types/secret"
	"github.com/boz/kcache/types/service"
	"github.com/boz/kcache/types/statefulset"
	appsv1 "k8s.io/api/apps/v1"
	batchv1 "k8s.io/api/batch/v1"
	corev1 "k8s.io/api/core/v1"
	netv1beta1 "k8s.io/api/networking/v1beta1"
	metav1 "k8s.io/apimachinery/pkg/apis/meta/v1"
	"k8s.io/apimachinery/pkg/runtime"
	"k8s.io/client-go/kubernetes"
	"k8s.io/client-go/rest"
)

func init() { commands["typed"] = typedMain }

type typedPkg struct {
	name         string
	build        interface{} // BuildController
	buildHandler interface{} // BuildHandler
	newMonitor   interface{} // NewMonitor
	newClient    func(kubernetes.Interface, string) client.Client
	mk           func(om metav1.ObjectMeta) runtime.Object
}

func typedPkgs() []typedPkg {
	return []typedPkg{
		{"pod", pod.BuildController, pod.BuildHandler, pod.NewMonitor, pod.NewClient, func(om metav1.ObjectMeta) runtime.Object { return &corev1.Pod{ObjectMeta: om} }},
		{"service", service.BuildController, service.BuildHandler, service.NewMonitor, service.NewClient, func(om metav1.ObjectMeta) runtime.Object { return &corev1.Service{ObjectMeta: om} }},
		{"secret", secret.BuildController, secret.BuildHandler, secret.NewMonitor, secret.NewClient, func(om metav1.ObjectMeta) runtime.Object { return &corev1.Secret{ObjectMeta: om} }},
		{"node", node.BuildController, node.BuildHandler, node.NewMonitor, node.NewClient, func(om metav1.ObjectMeta) runtime.Object { return &corev1.Node{ObjectMeta: om} }},
		{"event", event.BuildController, event.BuildHandler, event.NewMonitor, event.NewClient, func(om metav1.ObjectMeta) runtime.Object { return &corev1.Event{ObjectMeta: om} }},
		{"ingress", ingress.BuildController, ingress.BuildHandler, ingress.NewMonitor, ingress.NewClient, func(om metav1.ObjectMeta) runtime.Object { return &netv1beta1.Ingress{ObjectMeta: om} }},
		{"job", job.BuildController, job.BuildHandler, job.NewMonitor, job.NewClient, func(om metav1.ObjectMeta) runtime.Object { return &batchv1.Job{ObjectMeta: om} }},
		{"daemonset", daemonset.BuildController, daemonset.BuildHandler, daemonset.NewMonitor, daemonset.NewClient, func(om metav1.ObjectMeta) runtime.Object { return &appsv1.DaemonSet{ObjectMeta: om} }},
		{"deployment", deployment.BuildController, deployment.BuildHandler, deployment.NewMonitor, deployment.NewClient, func(om metav1.ObjectMeta) runtime.Object { return &appsv1.Deployment{ObjectMeta: om} }},
		{"replicaset", replicaset.BuildController, replicaset.BuildHandler, replicaset.NewMonitor, replicaset.NewClient, func(om metav1.ObjectMeta) runtime.Object { return &appsv1.ReplicaSet{ObjectMeta: om} }},
		{"replicationcontroller", replicationcontroller.BuildController, replicationcontroller.BuildHandler, replicationcontroller.NewMonitor, replicationcontroller.NewClient, func(om metav1.ObjectMeta) runtime.Object {
			return &corev1.ReplicationController{ObjectMeta: om}
		}},
		{"statefulset", statefulset.BuildController, statefulset.BuildHandler, statefulset.NewMonitor, statefulset.NewClient, func(om metav1.ObjectMeta) runtime.Object { return &appsv1.StatefulSet{ObjectMeta: om} }},
	}
}

// ---- reflection helpers over the typed APIs

func call(v reflect.Value, method string, args ...reflect.Value) []reflect.Value {
	m := v.MethodByName(method)
	if !m.IsValid() {
		panic("no method " + method + " on " + v.Type().String())
	}
	return m.Call(args)
}

func chanOf(v reflect.Value) <-chan struct{} {
	return v.Interface().(<-chan struct{})
}

func errOf(v reflect.Value) error {
	if v.IsNil() {
		return nil
	}
	return v.Interface().(error)
}

type evRec struct{ et, key, rv string }

func (e evRec) json() string { return fmt.Sprintf(`[%q,%q,%q]`, e.et, e.key, e.rv) }

func evsJSONT(l []evRec) string {
	var s []string
	for _, e := range l {
		s = append(s, e.json())
	}
	return "[" + strings.Join(s, ",") + "]"
}

func keyOfMeta(o metav1.Object) string { return o.GetNamespace() + "/" + o.GetName() }

// hw_typedsub drains a typed subscription's Events() channel through reflection.
func hw_typedsub(sub reflect.Value, mu *sync.Mutex, out *[]evRec) {
	ch := call(sub, "Events")[0]
	for {
		v, ok := ch.Recv()
		if !ok {
			return
		}
		et := fmt.Sprint(call(v, "Type")[0].Interface())
		res := call(v, "Resource")[0]
		rec := evRec{et: et, key: "<nil>"}
		if !res.IsNil() {
			o := res.Interface().(metav1.Object)
			rec.key, rec.rv = keyOfMeta(o), o.GetResourceVersion()
		}
		mu.Lock()
		*out = append(*out, rec)
		mu.Unlock()
	}
}

func hw_untypedsub(sub kcache.Subscription, mu *sync.Mutex, out *[]evRec) {
	for e := range sub.Events() {
		o := e.Resource()
		mu.Lock()
		*out = append(*out, evRec{string(e.Type()), keyOfMeta(o), o.GetResourceVersion()})
		mu.Unlock()
	}
}

// sigOf abstracts an observation from the type and the namespace layout of a package: keys become their index
// in the scenario's key list.  Every typed package is an instance of one template, so the same scenario (same
// seed) gives the same signature in every package.
func sigOf(evs []evRec, keys [][2]string) string {
	idx := map[string]string{}
	for i, k := range keys {
		idx[k[0]+"/"+k[1]] = fmt.Sprintf("k%d", i)
	}
	norm := func(k string) string {
		var out []string
		for _, part := range strings.Split(k, ",") {
			if v, ok := idx[part]; ok {
				out = append(out, v)
			} else if part == "<nil>" || part == "" {
				out = append(out, part)
			} else {
				out = append(out, "other")
			}
		}
		return strings.Join(out, ",")
	}
	var r []string
	for _, e := range evs {
		r = append(r, e.et+":"+norm(e.key)+":"+e.rv)
	}
	return strings.Join(r, " ")
}

// waitDone waits for a Done() channel under a watchdog and reports a timeout as a record of its own.
func waitDone(w *ndWriter, pkg, what string, ch <-chan struct{}) {
	select {
	case <-ch:
	case <-time.After(5 * time.Second):
		w.write2(fmt.Sprintf(`{"k":"typed.error","pkg":%q,"err":%q}`, pkg, what+" did not stop within 5 s of Close()"))
	}
}

func typedMain(args []string) int {
	fs := flag.NewFlagSet("typed", flag.ExitOnError)
	out := fs.String("out", "", "output ndjson file")
	seed := fs.Int64("seed", 1, "")
	rounds := fs.Int("rounds", 1, "scenarios per package")
	fs.Parse(args)
	theTracer.End()
	w := newNDWriter(*out)
	for r := 0; r < *rounds; r++ {
		for i, p := range typedPkgs() {
			// three scenarios per round, each run by four packages: instances of one template agree on it
			runTypedScenario(w, p, *seed*1000+int64(r*100+i%3))
		}
	}
	for r := 0; r < *rounds; r++ {
		for i, p := range typedPkgs() {
			runTypedMonitor(w, p, *seed*1000+int64(r*100+i))
		}
	}
	for i, p := range typedPkgs() {
		if i%4 == int(*seed)%4 { // the overflow scenario is long: a quarter of the packages per process
			runTypedOverflow(w, p, *seed)
		}
	}
	for _, p := range typedPkgs() {
		runTypedRequests(w, p)
	}
	w.close()
	fmt.Printf("typed: packages=%d rounds=%d lines=%d\n", len(typedPkgs()), *rounds, w.n)
	return 0
}

func runTypedScenario(w *ndWriter, p typedPkg, seed int64) {
	rng := rand.New(rand.NewSource(seed))
	pert := newPerturber(seed, []int{0, 3, 10}[rng.Intn(3)])
	log := newLog(pert)
	ctx, cancel := context.WithCancel(context.Background())
	defer cancel()
	srv := NewObjServer()
	foreign := map[string]bool{}
	mkForeign := func(name string) runtime.Object {
		om := metav1.ObjectMeta{Namespace: "n1", Name: name}
		foreign["n1/"+name] = true
		if p.name == "service" {
			return &corev1.ConfigMap{ObjectMeta: om}
		}
		return &corev1.Service{ObjectMeta: om}
	}
	keys := [][2]string{{"n1", "a"}, {"n1", "b"}, {"n2", "a"}}
	if p.name == "node" {
		keys = [][2]string{{"", "a"}, {"", "b"}, {"", "c"}}
	}
	mutate := func() {
		k := keys[rng.Intn(len(keys))]
		switch x := rng.Intn(10); {
		case x < 6:
			srv.Set(p.mk(metav1.ObjectMeta{Namespace: k[0], Name: k[1], Labels: map[string]string{"x": fmt.Sprint(rng.Intn(2))}}))
		case x < 8:
			srv.Delete(k[0], k[1])
		default:
			// an object of another type on the same stream: skipped by the typed layer, not a crash
			if rng.Intn(3) == 0 {
				srv.Delete("n1", "foreign")
			} else {
				srv.Set(mkForeign("foreign"))
			}
		}
	}
	for i := 0; i < rng.Intn(4); i++ {
		mutate()
	}
	if rng.Intn(2) == 0 {
		srv.Set(mkForeign("foreign"))
	}
	gated := rng.Intn(2) == 0
	if gated {
		srv.gate = make(chan struct{})
	}
	// typed controller (through reflection) and untyped controller on the same server
	res := reflect.ValueOf(p.build).Call([]reflect.Value{reflect.ValueOf(ctx), reflect.ValueOf(log), reflect.ValueOf(client.Client(srv))})
	if err := errOf(res[1]); err != nil {
		w.write2(fmt.Sprintf(`{"k":"typed.error","pkg":%q,"err":%q}`, p.name, err.Error()))
		return
	}
	tc := res[0]
	uc, err := kcache.NewController(ctx, log, srv)
	if err != nil {
		w.write2(fmt.Sprintf(`{"k":"typed.error","pkg":%q,"err":%q}`, p.name, err.Error()))
		return
	}
	var mu sync.Mutex
	var tev, uev, mev []evRec
	tsubR := call(tc, "Subscribe")
	usub, _ := uc.Subscribe()
	go hw_typedsub(tsubR[0], &mu, &tev)
	go hw_untypedsub(usub, &mu, &uev)
	// typed monitor with a recording handler built through reflection
	hb := reflect.ValueOf(p.buildHandler).Call(nil)[0]
	record := func(kind string) func(args []reflect.Value) []reflect.Value {
		return func(args []reflect.Value) []reflect.Value {
			rec := evRec{et: kind, key: "<nil>"}
			a := args[0]
			if kind == "init" {
				var ks []string
				for i := 0; i < a.Len(); i++ {
					if a.Index(i).IsNil() {
						ks = append(ks, "<nil>")
					} else {
						ks = append(ks, keyOfMeta(a.Index(i).Interface().(metav1.Object)))
					}
				}
				sort.Strings(ks)
				rec.key = strings.Join(ks, ",")
			} else if !a.IsNil() {
				o := a.Interface().(metav1.Object)
				rec.key, rec.rv = keyOfMeta(o), o.GetResourceVersion()
			}
			mu.Lock()
			mev = append(mev, rec)
			mu.Unlock()
			return nil
		}
	}
	for _, mk := range [][2]string{{"OnInitialize", "init"}, {"OnCreate", "create"}, {"OnUpdate", "update"}, {"OnDelete", "delete"}} {
		m := hb.MethodByName(mk[0])
		fn := reflect.MakeFunc(m.Type().In(0), record(mk[1]))
		hb = m.Call([]reflect.Value{fn})[0]
	}
	handler := call(hb, "Create")[0]
	monR := reflect.ValueOf(p.newMonitor).Call([]reflect.Value{tc, handler})
	var mon kcache.Monitor
	if errOf(monR[1]) == nil {
		mon = monR[0].Interface().(kcache.Monitor)
	}
	// the untyped monitor for comparison
	var umev []evRec
	uh := kcache.BuildHandler().
		OnInitialize(func(l []metav1.Object) {
			var ks []string
			for _, o := range l {
				if !foreign[keyOfMeta(o)] {
					ks = append(ks, keyOfMeta(o))
				}
			}
			sort.Strings(ks)
			mu.Lock()
			umev = append(umev, evRec{"init", strings.Join(ks, ","), ""})
			mu.Unlock()
		}).
		OnCreate(func(o metav1.Object) {
			mu.Lock()
			umev = append(umev, evRec{"create", keyOfMeta(o), o.GetResourceVersion()})
			mu.Unlock()
		}).
		OnUpdate(func(o metav1.Object) {
			mu.Lock()
			umev = append(umev, evRec{"update", keyOfMeta(o), o.GetResourceVersion()})
			mu.Unlock()
		}).
		OnDelete(func(o metav1.Object) {
			mu.Lock()
			umev = append(umev, evRec{"delete", keyOfMeta(o), o.GetResourceVersion()})
			mu.Unlock()
		}).Create()
	umon, _ := kcache.NewMonitor(uc, uh)

	// a clone of each controller with a subscriber: closed half-way, which must not touch the original
	var ctev, cuev []evRec
	var tclone reflect.Value
	var uclone kcache.Controller
	if r := call(tc, "Clone"); errOf(r[1]) == nil {
		tclone = r[0]
		if sr := call(tclone, "Subscribe"); errOf(sr[1]) == nil {
			go hw_typedsub(sr[0], &mu, &ctev)
		}
	}
	if c, err := uc.Clone(); err == nil {
		uclone = c
		if sub, err := c.Subscribe(); err == nil {
			go hw_untypedsub(sub, &mu, &cuev)
		}
	}
	tready := chanOf(call(tc, "Ready")[0])
	emit := func(tag string) {
		quiet := quiesce(theTracer, 3*time.Second)
		mu.Lock()
		te, ue, me, ume := evsJSONT(tev), evsJSONT(uev), evsJSONT(mev), evsJSONT(umev)
		cte, cue := evsJSONT(ctev), evsJSONT(cuev)
		sig := "events[" + sigOf(tev, keys) + "] monitor[" + sigOf(mev, keys) + "]"
		mu.Unlock()
		// cache listings
		var tl, ul []string
		cache := call(tc, "Cache")[0]
		lr := call(cache, "List")
		tlerr := errOf(lr[1]) != nil
		for i := 0; i < lr[0].Len(); i++ {
			if lr[0].Index(i).IsNil() {
				tl = append(tl, "<nil>")
				continue
			}
			o := lr[0].Index(i).Interface().(metav1.Object)
			tl = append(tl, keyOfMeta(o)+"@"+o.GetResourceVersion())
		}
		ulst, ulerr := uc.Cache().List()
		for _, o := range ulst {
			ul = append(ul, keyOfMeta(o)+"@"+o.GetResourceVersion())
		}
		sort.Strings(tl)
		sort.Strings(ul)
		// Get of a foreign object through the typed cache: skipped (nil), not a crash
		fg := "absent"
		gr := call(cache, "Get", reflect.ValueOf("n1"), reflect.ValueOf("foreign"))
		if !gr[0].IsNil() {
			fg = "returned"
		}
		var fk []string
		for k := range foreign {
			fk = append(fk, k)
		}
		w.write2(fmt.Sprintf(`{"k":"typed.snap","pkg":%q,"tag":%q,"seed":%d,"quiet":%v,"tev":%s,"uev":%s,"tlist":%s,"ulist":%s,"tlisterr":%v,"ulisterr":%v,"foreign":%s,"foreign_get":%q,"tready":%v,"uready":%v,"tdone":%v,"udone":%v,"tmon":%s,"umon":%s,"sig":%q,"ctev":%s,"cuev":%s}`,
			p.name, tag, seed, quiet, te, ue, jsStrs(tl), jsStrs(ul), tlerr, ulerr != nil, jsStrs(fk), fg, isClosed(tready), isClosed(uc.Ready()),
			isClosed(chanOf(call(tc, "Done")[0])), isClosed(uc.Done()), me, ume, sig, cte, cue))
	}
	if gated {
		emit("gated")
		close(srv.gate)
	}
	// both controllers list the same server state: no mutation until both are ready
	for i := 0; i < 600 && !(isClosed(tready) && isClosed(uc.Ready())); i++ {
		time.Sleep(2 * time.Millisecond)
	}
	// ... and until both monitors were initialised (they list the cache when they get to run)
	for i := 0; i < 600; i++ {
		mu.Lock()
		ok := len(mev) > 0 && len(umev) > 0
		mu.Unlock()
		if ok || mon == nil {
			break
		}
		time.Sleep(2 * time.Millisecond)
	}
	n := 10 + rng.Intn(20)
	for i := 0; i < n; i++ {
		if i == n/2 {
			// both clones have seen the same prefix of the stream (quiescence first), then they are closed
			quiesce(theTracer, 3*time.Second)
			if tclone.IsValid() {
				call(tclone, "Close")
			}
			if uclone != nil {
				uclone.Close()
			}
			quiesce(theTracer, 3*time.Second)
		}
		mutate()
		if rng.Intn(3) == 0 {
			time.Sleep(time.Duration(rng.Intn(200)) * time.Microsecond)
		}
	}
	emit("end")
	// lifecycle: closing the typed controller closes its subscription; the untyped one likewise
	call(tc, "Close")
	uc.Close()
	for i := 0; i < 400; i++ {
		if isClosed(chanOf(call(tc, "Done")[0])) && isClosed(uc.Done()) {
			break
		}
		time.Sleep(5 * time.Millisecond)
	}
	if mon != nil {
		waitDone(w, p.name, "typed monitor", mon.Done())
	}
	waitDone(w, p.name, "untyped monitor", umon.Done())
	emit("closed")
	cancel()
	for i := 0; i < 400; i++ {
		if n, _ := libGoroutineCount(); n == 0 {
			break
		}
		time.Sleep(5 * time.Millisecond)
	}
	leak, _ := libGoroutineCount()
	w.write2(fmt.Sprintf(`{"k":"typed.end","pkg":%q,"leak":%d}`, p.name, leak))
}

// runTypedMonitor: the callback protocol of a typed monitor (C16 for the typed layer): handlers log entry and
// exit and take a while (the initialisation longest), events keep arriving meanwhile.
func runTypedMonitor(w *ndWriter, p typedPkg, seed int64) {
	rng := rand.New(rand.NewSource(seed))
	log := newLog(newPerturber(seed, []int{0, 3}[rng.Intn(2)]))
	ctx, cancel := context.WithCancel(context.Background())
	defer cancel()
	srv := NewObjServer()
	ns := "n1"
	if p.name == "node" {
		ns = ""
	}
	set := func(name string) {
		srv.Set(p.mk(metav1.ObjectMeta{Namespace: ns, Name: name, Labels: map[string]string{"x": fmt.Sprint(rng.Intn(3))}}))
	}
	if rng.Intn(2) == 0 {
		set("a") // otherwise the monitor is initialised with an empty listing - it still has to be initialised
	}
	res := reflect.ValueOf(p.build).Call([]reflect.Value{reflect.ValueOf(ctx), reflect.ValueOf(log), reflect.ValueOf(client.Client(srv))})
	if err := errOf(res[1]); err != nil {
		return
	}
	tc := res[0]
	var mu sync.Mutex
	var seq []string
	hb := reflect.ValueOf(p.buildHandler).Call(nil)[0]
	mkcb := func(kind string) func(args []reflect.Value) []reflect.Value {
		return func(args []reflect.Value) []reflect.Value {
			mu.Lock()
			seq = append(seq, fmt.Sprintf(`["enter",%q]`, kind))
			mu.Unlock()
			d := time.Duration(rng.Intn(300)) * time.Microsecond
			if kind == "init" {
				d = 3 * time.Millisecond
			}
			time.Sleep(d)
			mu.Lock()
			seq = append(seq, fmt.Sprintf(`["exit",%q]`, kind))
			mu.Unlock()
			return nil
		}
	}
	for _, mk := range [][2]string{{"OnInitialize", "init"}, {"OnCreate", "create"}, {"OnUpdate", "update"}, {"OnDelete", "delete"}} {
		m := hb.MethodByName(mk[0])
		hb = m.Call([]reflect.Value{reflect.MakeFunc(m.Type().In(0), mkcb(mk[1]))})[0]
	}
	monR := reflect.ValueOf(p.newMonitor).Call([]reflect.Value{tc, call(hb, "Create")[0]})
	if errOf(monR[1]) != nil {
		return
	}
	mon := monR[0].Interface().(kcache.Monitor)
	// events arrive while the initialisation may still be running
	<-chanOf(call(tc, "Ready")[0])
	for i := 0; i < 6+rng.Intn(8); i++ {
		if rng.Intn(4) == 0 {
			srv.Delete(ns, "b")
		} else {
			set([]string{"a", "b"}[rng.Intn(2)])
		}
		time.Sleep(time.Duration(rng.Intn(400)) * time.Microsecond)
	}
	quiet := quiesce(theTracer, 3*time.Second)
	mon.Close()
	waitDone(w, p.name, "typed monitor", mon.Done())
	call(tc, "Close")
	waitDone(w, p.name, "typed controller", chanOf(call(tc, "Done")[0]))
	mu.Lock()
	sq := "[" + strings.Join(seq, ",") + "]"
	mu.Unlock()
	w.write2(fmt.Sprintf(`{"k":"typed.mon","pkg":%q,"seed":%d,"quiet":%v,"seq":%s}`, p.name, seed, quiet, sq))
	cancel()
	for i := 0; i < 400; i++ {
		if n, _ := libGoroutineCount(); n == 0 {
			break
		}
		time.Sleep(5 * time.Millisecond)
	}
}

// runTypedOverflow: a typed subscriber that never reads loses only events beyond its buffer (it keeps the first
// EventBufsiz in order); a reading typed sibling and the typed cache see everything (C10 for the typed layer).
func runTypedOverflow(w *ndWriter, p typedPkg, seed int64) {
	log := newLog(nil)
	ctx, cancel := context.WithCancel(context.Background())
	defer cancel()
	srv := NewObjServer()
	ns := "n1"
	if p.name == "node" {
		ns = ""
	}
	res := reflect.ValueOf(p.build).Call([]reflect.Value{reflect.ValueOf(ctx), reflect.ValueOf(log), reflect.ValueOf(client.Client(srv))})
	if errOf(res[1]) != nil {
		return
	}
	tc := res[0]
	<-chanOf(call(tc, "Ready")[0])
	stalled := call(tc, "Subscribe")[0]
	healthy := call(tc, "Subscribe")[0]
	var mu sync.Mutex
	var hev []evRec
	go hw_typedsub(healthy, &mu, &hev)
	total := 2*kcache.EventBufsiz + 50
	for i := 0; i < total; i++ {
		srv.Set(p.mk(metav1.ObjectMeta{Namespace: ns, Name: "a", Labels: map[string]string{"x": fmt.Sprint(i % 3)}}))
		if i%20 == 19 {
			quiesce(theTracer, 3*time.Second) // the reading sibling keeps its backlog small
		}
	}
	quiet := quiesce(theTracer, 3*time.Second)
	var sev []evRec
	ch := call(stalled, "Events")[0]
	for {
		v, ok := ch.TryRecv()
		if !ok {
			break
		}
		o := call(v, "Resource")[0].Interface().(metav1.Object)
		sev = append(sev, evRec{fmt.Sprint(call(v, "Type")[0].Interface()), keyOfMeta(o), o.GetResourceVersion()})
	}
	mu.Lock()
	he := evsJSONT(hev)
	mu.Unlock()
	w.write2(fmt.Sprintf(`{"k":"typed.overflow","pkg":%q,"quiet":%v,"published":%d,"buf":%d,"healthy":%s,"stalled":%s}`, p.name, quiet, total, kcache.EventBufsiz, he, evsJSONT(sev)))
	call(tc, "Close")
	waitDone(w, p.name, "typed controller", chanOf(call(tc, "Done")[0]))
	cancel()
	for i := 0; i < 400; i++ {
		if n, _ := libGoroutineCount(); n == 0 {
			break
		}
		time.Sleep(5 * time.Millisecond)
	}
}

// ---- requests

type recTransport struct {
	mu    sync.Mutex
	reqs  []*http.Request
	items int // objects the fake API server holds for the resource
}

// RoundTrip is a minimal API server: a list honours limit/continue (chunked lists), a watch is an empty stream.
func (t *recTransport) RoundTrip(r *http.Request) (*http.Response, error) {
	t.mu.Lock()
	t.reqs = append(t.reqs, r)
	t.mu.Unlock()
	q := r.URL.Query()
	body := ""
	if !(q.Get("watch") == "true" || strings.Contains(r.URL.Path, "/watch/")) {
		start, end, cont := 0, t.items, ""
		if c := q.Get("continue"); strings.HasPrefix(c, "c") {
			start, _ = strconv.Atoi(c[1:])
		}
		if l, err := strconv.Atoi(q.Get("limit")); err == nil && l > 0 && start+l < end {
			end = start + l
			cont = fmt.Sprintf(`,"continue":"c%d"`, end)
		}
		var items []string
		for i := start; i < end; i++ {
			items = append(items, fmt.Sprintf(`{"metadata":{"name":"o%d","namespace":"n1","resourceVersion":"5"}}`, i))
		}
		body = fmt.Sprintf(`{"kind":"List","apiVersion":"v1","metadata":{"resourceVersion":"7"%s},"items":[%s]}`, cont, strings.Join(items, ","))
	}
	return &http.Response{StatusCode: 200, Status: "200 OK", Proto: "HTTP/1.1", ProtoMajor: 1, ProtoMinor: 1,
		Header: http.Header{"Content-Type": []string{"application/json"}}, Body: io.NopCloser(bytes.NewBufferString(body)), Request: r}, nil
}

func runTypedRequests(w *ndWriter, p typedPkg) {
	for _, ns := range []string{"", "n1", "default"} {
		// the third namespace holds more objects than any plausible page size
		rt := &recTransport{items: map[string]int{"": 3, "n1": 40, "default": 1300}[ns]}
		cs, err := kubernetes.NewForConfig(&rest.Config{Host: "http://fake.invalid", Transport: rt})
		if err != nil {
			w.write2(fmt.Sprintf(`{"k":"typed.error","pkg":%q,"err":%q}`, p.name, err.Error()))
			return
		}
		cl := p.newClient(cs, ns)
		ctx, cancel := context.WithTimeout(context.Background(), 2*time.Second)
		lobj, lerr := cl.List(ctx, metav1.ListOptions{})
		listn := -1
		if lerr == nil && lobj != nil {
			listn = meta.LenList(lobj)
		}
		wi, werr := cl.Watch(ctx, metav1.ListOptions{ResourceVersion: "7", Watch: true})
		if wi != nil {
			wi.Stop()
		}
		// a re-watch through the same client (after a disconnect) carries its own resourceVersion only
		wi2, _ := cl.Watch(ctx, metav1.ListOptions{ResourceVersion: "9", Watch: true})
		if wi2 != nil {
			wi2.Stop()
		}
		cancel()
		// a second clientset (another cluster) asked for the same resource and namespace gets a client of its own
		rt2 := &recTransport{items: rt.items + 2}
		if cs2, err2 := kubernetes.NewForConfig(&rest.Config{Host: "http://other.invalid", Transport: rt2}); err2 == nil {
			cl2 := p.newClient(cs2, ns)
			ctx2, cancel2 := context.WithTimeout(context.Background(), 2*time.Second)
			l2, lerr2 := cl2.List(ctx2, metav1.ListOptions{})
			cancel2()
			n2 := -1
			if lerr2 == nil && l2 != nil {
				n2 = meta.LenList(l2)
			}
			rt2.mu.Lock()
			hits := len(rt2.reqs)
			rt2.mu.Unlock()
			w.write2(fmt.Sprintf(`{"k":"typed.req2","pkg":%q,"ns":%q,"hits":%d,"listn":%d,"items":%d}`, p.name, ns, hits, n2, rt2.items))
		}
		rt.mu.Lock()
		nlist, nwatch := 0, 0
		for _, r := range rt.reqs {
			op := "list"
			if r.URL.Query().Get("watch") == "true" || strings.Contains(r.URL.Path, "/watch/") {
				nwatch++
				op = "watch"
				if nwatch > 1 {
					op = "watch2"
				}
			} else {
				nlist++
			}
			var q []string
			for k, vs := range r.URL.Query() {
				for _, v := range vs {
					q = append(q, fmt.Sprintf(`[%q,%q]`, k, v))
				}
			}
			sort.Strings(q)
			w.write2(fmt.Sprintf(`{"k":"typed.req","pkg":%q,"ns":%q,"op":%q,"method":%q,"path":%q,"query":[%s],"listerr":%v,"watcherr":%v,"listn":%d,"items":%d}`,
				p.name, ns, op, r.Method, r.URL.Path, strings.Join(q, ","), lerr != nil, werr != nil, listn, rt.items))
		}
		if nlist < 1 || nwatch != 2 {
			w.write2(fmt.Sprintf(`{"k":"typed.reqcount","pkg":%q,"ns":%q,"n":%d}`, p.name, ns, len(rt.reqs)))
		}
		rt.mu.Unlock()
	}
}
