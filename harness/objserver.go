package main

// ObjServer: a fake API server for arbitrary typed objects (joins, typed
// packages).  Healthy list + watch with resumption; objects are stored as
// deep copies with server-assigned resource versions.

import (
	"context"
	"strconv"
	"sync"

	"k8s.io/apimachinery/pkg/api/meta"
	metav1 "k8s.io/apimachinery/pkg/apis/meta/v1"
	"k8s.io/apimachinery/pkg/runtime"
	"k8s.io/apimachinery/pkg/watch"
)

type objHist struct {
	RV   int
	Type watch.EventType
	Obj  runtime.Object
}

type ObjServer struct {
	mu      sync.Mutex
	rv      int
	objs    map[string]runtime.Object
	hist    []objHist
	watches map[*objWatch]bool
	gate    chan struct{} // while non-nil and open, every list waits for it to be closed
	nList   int
}

func NewObjServer() *ObjServer {
	return &ObjServer{objs: map[string]runtime.Object{}, watches: map[*objWatch]bool{}, rv: 1}
}

func objKey(o runtime.Object) string {
	m, _ := meta.Accessor(o)
	return m.GetNamespace() + "/" + m.GetName()
}

// Set stores a copy of obj (create or update) and returns the assigned version.
func (s *ObjServer) Set(obj runtime.Object) int {
	s.mu.Lock()
	s.rv++
	c := obj.DeepCopyObject()
	m, _ := meta.Accessor(c)
	m.SetResourceVersion(strconv.Itoa(s.rv))
	k := objKey(c)
	t := watch.Added
	if _, ok := s.objs[k]; ok {
		t = watch.Modified
	}
	s.objs[k] = c
	s.hist = append(s.hist, objHist{s.rv, t, c})
	rv := s.rv
	ws := s.watchers()
	s.mu.Unlock()
	for _, w := range ws {
		w.kick()
	}
	return rv
}

func (s *ObjServer) Delete(ns, name string) bool {
	s.mu.Lock()
	k := ns + "/" + name
	old, ok := s.objs[k]
	if !ok {
		s.mu.Unlock()
		return false
	}
	s.rv++
	c := old.DeepCopyObject()
	m, _ := meta.Accessor(c)
	m.SetResourceVersion(strconv.Itoa(s.rv))
	delete(s.objs, k)
	s.hist = append(s.hist, objHist{s.rv, watch.Deleted, c})
	ws := s.watchers()
	s.mu.Unlock()
	for _, w := range ws {
		w.kick()
	}
	return true
}

func (s *ObjServer) watchers() []*objWatch {
	var ws []*objWatch
	for w := range s.watches {
		ws = append(ws, w)
	}
	return ws
}

// Objects returns the current objects (copies).
func (s *ObjServer) Objects() []runtime.Object {
	s.mu.Lock()
	defer s.mu.Unlock()
	var r []runtime.Object
	for _, o := range s.objs {
		r = append(r, o.DeepCopyObject())
	}
	return r
}

func (s *ObjServer) List(ctx context.Context, opts metav1.ListOptions) (runtime.Object, error) {
	s.mu.Lock()
	g := s.gate
	s.nList++
	s.mu.Unlock()
	if g != nil {
		select {
		case <-g:
		case <-ctx.Done():
			return nil, ctx.Err()
		}
	}
	s.mu.Lock()
	defer s.mu.Unlock()
	l := &metav1.List{ListMeta: metav1.ListMeta{ResourceVersion: strconv.Itoa(s.rv)}}
	for _, o := range s.objs {
		l.Items = append(l.Items, runtime.RawExtension{Object: o.DeepCopyObject()})
	}
	return l, nil
}

type objWatch struct {
	s      *ObjServer
	ch     chan watch.Event
	stop   chan struct{}
	kickch chan struct{}
	once   sync.Once
	next   int
	ctx    context.Context
}

func (s *ObjServer) Watch(ctx context.Context, opts metav1.ListOptions) (watch.Interface, error) {
	from, _ := strconv.Atoi(opts.ResourceVersion)
	w := &objWatch{s: s, ch: make(chan watch.Event), stop: make(chan struct{}), kickch: make(chan struct{}, 1), next: from, ctx: ctx}
	s.mu.Lock()
	s.watches[w] = true
	s.mu.Unlock()
	go w.hw_pump()
	return w, nil
}

func (w *objWatch) ResultChan() <-chan watch.Event { return w.ch }
func (w *objWatch) Stop() {
	w.once.Do(func() {
		close(w.stop)
		w.s.mu.Lock()
		delete(w.s.watches, w)
		w.s.mu.Unlock()
	})
}
func (w *objWatch) kick() {
	select {
	case w.kickch <- struct{}{}:
	default:
	}
}

func (w *objWatch) hw_pump() {
	for {
		for {
			w.s.mu.Lock()
			var ev *objHist
			for i := range w.s.hist {
				if w.s.hist[i].RV > w.next {
					e := w.s.hist[i]
					ev = &e
					break
				}
			}
			w.s.mu.Unlock()
			if ev == nil {
				break
			}
			w.next = ev.RV
			select {
			case w.ch <- watch.Event{Type: ev.Type, Object: ev.Obj.DeepCopyObject()}:
			case <-w.stop:
				return
			case <-w.ctx.Done():
				return
			}
		}
		select {
		case <-w.kickch:
		case <-w.stop:
			return
		case <-w.ctx.Done():
			return
		}
	}
}
