package main

import (
	"bufio"
	"encoding/json"
	"fmt"
	"math/rand"
	"os"
	"runtime"
	"strconv"
	"sync"
	"sync/atomic"
	"time"

	logutil "github.com/boz/go-logutil"
	"github.com/boz/kcache"
	"github.com/boz/kcache/filter"
	"github.com/boz/kcache/nsname"
	corev1 "k8s.io/api/core/v1"
	metav1 "k8s.io/apimachinery/pkg/apis/meta/v1"
	"k8s.io/apimachinery/pkg/labels"
)

// ---------------------------------------------------------------- universe

const NN = -99 // model value of a non-numeric resource version

// model key -> (namespace, name)
var keyNS = map[string][2]string{
	// d is cluster-scoped (empty namespace) and shares its name with a: keys are namespace AND name
	"a": {"ns1", "a"}, "b": {"ns2", "b"}, "c": {"ns1", "c"}, "d": {"", "a"},
	"e": {"ns2", "e"}, "f": {"ns3", "f"},
}
var nsKey = func() map[[2]string]string {
	m := map[[2]string]string{}
	for k, v := range keyNS {
		m[v] = k
	}
	return m
}()

// Resource versions are 64-bit on the wire but TLC integers are 32-bit: real versions in a window around 2^31 and
// around 2^32 are mapped order-preservingly to model versions 200000.. and 300000.. (ordinary ones stay as they are).
const (
	bigBase1  = int64(1)<<31 - 1000
	bigBase2  = int64(1)<<32 - 1000
	bigModel1 = 200000
	bigModel2 = 300000
)

func realToModel(n int64) int {
	switch {
	case n >= bigBase2:
		return bigModel2 + int(n-bigBase2)
	case n >= bigBase1:
		return bigModel1 + int(n-bigBase1)
	}
	return int(n)
}

func modelToReal(v int) int64 {
	switch {
	case v >= bigModel2:
		return bigBase2 + int64(v-bigModel2)
	case v >= bigModel1:
		return bigBase1 + int64(v-bigModel1)
	}
	return int64(v)
}

func verString(v int) string {
	if v == NN {
		return "x7"
	}
	return strconv.FormatInt(modelToReal(v), 10)
}

func verModel(s string) int {
	n, err := strconv.ParseInt(s, 10, 64)
	if err != nil {
		return NN
	}
	return realToModel(n)
}

// mkPod builds the real object for model object (k, v, l).
func mkPod(k string, v, l int) *corev1.Pod {
	nn, ok := keyNS[k]
	if !ok {
		panic("unknown model key " + k)
	}
	p := &corev1.Pod{ObjectMeta: metav1.ObjectMeta{
		Namespace: nn[0], Name: nn[1], ResourceVersion: verString(v),
		Labels: map[string]string{"x": strconv.Itoa(l)},
	}}
	// metadata the cache semantics do not depend on: an object that is being deleted gracefully still
	// exists (it carries a deletion timestamp and is reported by Modified frames), generations, finalizers
	switch v % 5 {
	case 2:
		t := metav1.NewTime(time.Unix(1500000000+int64(v), 0))
		p.DeletionTimestamp = &t
		p.Finalizers = []string{"verif/hold"}
	case 3:
		p.Generation = int64(v)
		p.Annotations = map[string]string{"note": k}
	}
	return p
}

// MObj is the model view (key, version, label) of a real object.
type MObj struct {
	K string
	V int
	L int
}

func (o MObj) arr() []interface{} { return []interface{}{o.K, o.V, o.L} }

func modelOf(obj metav1.Object) (MObj, bool) {
	if obj == nil {
		return MObj{}, false
	}
	k, ok := nsKey[[2]string{obj.GetNamespace(), obj.GetName()}]
	if !ok {
		return MObj{K: obj.GetNamespace() + "/" + obj.GetName()}, false
	}
	l := -1
	if s, ok := obj.GetLabels()["x"]; ok {
		if n, err := strconv.Atoi(s); err == nil {
			l = n
		}
	}
	return MObj{K: k, V: verModel(obj.GetResourceVersion()), L: l}, true
}

// mkFilter builds the real filter for a model filter name.
func mkFilter(name string) filter.Filter {
	switch name {
	case "null":
		return filter.Null()
	case "all":
		return filter.All()
	case "lx1":
		return filter.Labels(map[string]string{"x": "1"})
	case "lx0":
		return filter.Labels(map[string]string{"x": "0"})
	case "fnx0":
		return filter.FN(func(o metav1.Object) bool { return o.GetLabels()["x"] == "0" })
	case "nlx1":
		return filter.Not(filter.Labels(map[string]string{"x": "1"}))
	case "nsa":
		return filter.NSName(nsname.New("ns1", "a"))
	case "nsp1":
		return filter.NSName(nsname.New("ns1", ""))
	case "nsp2":
		return filter.NSName(nsname.New("ns2", ""))
	case "nnpa":
		return filter.NSName(nsname.New("", "a"))
	case "nnpb":
		return filter.NSName(nsname.New("", "b"))
	case "sel0":
		return filter.LabelSelector(nil)
	case "selall":
		return filter.Selector(labels.NewSelector())
	case "anx0":
		return filter.And(filter.Null(), filter.FN(func(o metav1.Object) bool { return o.GetLabels()["x"] == "0" }))
	case "anx1":
		return filter.And(filter.Null(), filter.FN(func(o metav1.Object) bool { return o.GetLabels()["x"] == "1" }))
	}
	panic("unknown model filter " + name)
}

func evName(t kcache.EventType) string { return string(t) }

// ---------------------------------------------------------------- logger

// plog is a silent logutil.Log that perturbs the schedule: the library logs at
// almost every step, so yielding here moves dozens of interleaving points.
type plog struct {
	perturb *perturber
}

type perturber struct {
	mu   sync.Mutex
	rng  *rand.Rand
	rate int // yield once every `rate` calls on average; 0 = never
	n    int64
}

func newPerturber(seed int64, rate int) *perturber {
	return &perturber{rng: rand.New(rand.NewSource(seed)), rate: rate}
}

func (p *perturber) point() {
	if p == nil || p.rate == 0 {
		return
	}
	atomic.AddInt64(&p.n, 1)
	p.mu.Lock()
	r := p.rng.Intn(p.rate)
	p.mu.Unlock()
	if r == 0 {
		runtime.Gosched()
	}
}

func newLog(p *perturber) logutil.Log { return &plog{p} }

func (l *plog) WithComponent(string) logutil.Log                   { return l }
func (l *plog) Trace(string, ...interface{}) string                { return "" }
func (l *plog) Un(string)                                          {}
func (l *plog) Debugf(string, ...interface{})                      { l.perturb.point() }
func (l *plog) Infof(string, ...interface{})                       { l.perturb.point() }
func (l *plog) Warnf(string, ...interface{})                       { l.perturb.point() }
func (l *plog) Errorf(string, ...interface{})                      { l.perturb.point() }
func (l *plog) Fatalf(f string, a ...interface{})                  { panic(fmt.Sprintf(f, a...)) }
func (l *plog) ErrWarn(e error, _ string, _ ...interface{}) error  { l.perturb.point(); return e }
func (l *plog) ErrFatal(e error, _ string, _ ...interface{}) error { panic(e) }
func (l *plog) Err(e error, _ string, _ ...interface{}) error      { l.perturb.point(); return e }

// ---------------------------------------------------------------- ndjson

type ndWriter struct {
	mu sync.Mutex
	f  *os.File
	w  *bufio.Writer
	n  int
}

func newNDWriter(path string) *ndWriter {
	f, err := os.Create(path)
	if err != nil {
		fmt.Fprintln(os.Stderr, "create:", err)
		os.Exit(2)
	}
	return &ndWriter{f: f, w: bufio.NewWriterSize(f, 1<<20)}
}

func (w *ndWriter) write(v interface{}) {
	b, err := json.Marshal(v)
	if err != nil {
		panic(err)
	}
	w.mu.Lock()
	w.w.Write(b)
	w.w.WriteByte('\n')
	w.n++
	w.mu.Unlock()
}

func (w *ndWriter) flush() {
	w.mu.Lock()
	w.w.Flush()
	w.mu.Unlock()
}

func (w *ndWriter) close() {
	w.flush()
	w.f.Close()
}
