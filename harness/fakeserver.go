package main

// A fake Kubernetes API server for one resource type, implementing the server
// side of spec/Controller.tla: objects, a resourceVersion counter, the event
// history (for watch resumption), scriptable list and watch behaviour.  Every
// server-side step is logged to the trace before it becomes visible.

import (
	"context"
	"errors"
	"fmt"
	"sort"
	"strconv"
	"sync"
	"sync/atomic"
	"time"

	corev1 "k8s.io/api/core/v1"
	metav1 "k8s.io/apimachinery/pkg/apis/meta/v1"
	"k8s.io/apimachinery/pkg/runtime"
	"k8s.io/apimachinery/pkg/watch"
)

type histEv struct {
	RV   int
	Type watch.EventType
	O    MObj
}

// ListAct scripts the n-th List call.
type ListAct struct {
	Delay  time.Duration // latency before the snapshot is returned
	Fail   string        // "", "error", "nil", "notlist", "nonobject", "ctxerr"
	Gate   chan struct{} // if non-nil the call returns only after it is closed (or ctx is done)
	Late   bool          // take the snapshot at call time (default) but return after Delay/Gate: a stale list
	Repeat bool          // return the previous list's snapshot (content and version) again
	Linger time.Duration // after its context was cancelled the call takes this long to return
}

// WatchAct scripts the n-th Watch call.
type WatchAct struct {
	ConnErr     bool           // Watch() returns an error
	ConnErrKind int            // 0: plain error, 1: context.DeadlineExceeded, 2: context.Canceled (a client-side timeout, not our shutdown)
	Hang        bool           // Watch() blocks until its context is cancelled
	CloseAfter  int            // close the stream after this many frames (0 = never, -1 = immediately)
	Inject      map[int]string // before data frame #i (0-based) send a special frame: "status","bookmark","error","unknown","nilobj","nonobj"
	DropAt      map[int]bool   // do not send data frame #i
	DupAt       map[int]bool   // send data frame #i twice
	FromOlder   int            // replay from (requested rv - FromOlder)
	Mute        bool           // connect but never deliver anything
}

type FakeServer struct {
	// InPlace: the watch source keeps one object per key, rewrites it in place for every change and sends
	// the same pointer again (an in-memory fake does that).  Only sound for a driver that lets every event
	// propagate completely before the next mutation.
	InPlace bool
	ptrs    map[string]*corev1.Pod

	mu                 sync.Mutex
	tr                 *Tracer
	rv                 int
	objs               map[string]MObj
	hist               []histEv
	watches            map[*fakeWatch]bool
	lists              []ListAct
	watchs             []WatchAct
	defWatch           WatchAct
	nList              int
	nWatch             int
	extra              []runtime.Object // foreign objects mixed into lists (typed scenarios)
	listTimes          []time.Time
	inFlight           int
	nListRet           int
	havePrev           bool
	prevRV             int
	prevSnap           []MObj
	lastMut            time.Time
	lastHealthyFloor   time.Time
	healthyAt          time.Time // when the last Watch call with a fully healthy script connected
	Converged          bool
	DeleteKeepsVersion bool
	maxInFlight        int
}

func NewFakeServer(tr *Tracer) *FakeServer {
	return &FakeServer{tr: tr, objs: map[string]MObj{}, watches: map[*fakeWatch]bool{}, rv: 1}
}

func (s *FakeServer) name() string { return "srv" }

// ---- mutations

func (s *FakeServer) apply(t watch.EventType, k string, l int) MObj {
	s.mu.Lock()
	s.rv++
	o := MObj{K: k, V: realToModel(int64(s.rv)), L: l}
	if t == watch.Deleted {
		if old, ok := s.objs[k]; ok {
			o.L = old.L
			if s.DeleteKeepsVersion {
				o.V = old.V // the DELETED frame carries the object as it last was
			}
		}
		delete(s.objs, k)
	} else {
		s.objs[k] = o
	}
	s.hist = append(s.hist, histEv{s.rv, t, o})
	s.lastMut = time.Now()
	s.tr.LogRaw("srv", "srv.mut", fmt.Sprintf(`"wt":%q,"o":{"k":%q,"v":%d,"l":%d},"rv":%d`, string(t), o.K, o.V, o.L, realToModel(int64(s.rv))))
	ws := make([]*fakeWatch, 0, len(s.watches))
	for w := range s.watches {
		ws = append(ws, w)
	}
	s.mu.Unlock()
	for _, w := range ws {
		w.kick()
	}
	return o
}

// Set creates or updates key k with label l; returns the event type used.
func (s *FakeServer) Set(k string, l int) MObj {
	s.mu.Lock()
	_, exists := s.objs[k]
	s.mu.Unlock()
	if exists {
		return s.apply(watch.Modified, k, l)
	}
	return s.apply(watch.Added, k, l)
}

func (s *FakeServer) frameObj(o MObj) *corev1.Pod {
	np := mkPod(o.K, o.V, o.L)
	if !s.InPlace {
		return np
	}
	s.mu.Lock()
	defer s.mu.Unlock()
	if s.ptrs == nil {
		s.ptrs = map[string]*corev1.Pod{}
	}
	p := s.ptrs[o.K]
	if p == nil {
		s.ptrs[o.K] = np
		return np
	}
	*p = *np
	return p
}

func (s *FakeServer) Delete(k string) bool {
	s.mu.Lock()
	_, exists := s.objs[k]
	s.mu.Unlock()
	if !exists {
		return false
	}
	s.apply(watch.Deleted, k, 0)
	return true
}

func (s *FakeServer) Has(k string) bool {
	s.mu.Lock()
	defer s.mu.Unlock()
	_, ok := s.objs[k]
	return ok
}

func (s *FakeServer) RV() int {
	s.mu.Lock()
	defer s.mu.Unlock()
	return s.rv
}

func (s *FakeServer) snapshot() (int, []MObj) {
	var l []MObj
	for _, o := range s.objs {
		l = append(l, o)
	}
	sort.Slice(l, func(i, j int) bool { return l[i].K < l[j].K })
	return s.rv, l
}

// Snapshot logs the server content (used at quiescence).
func (s *FakeServer) LogSnapshot() {
	s.mu.Lock()
	rv, l := s.snapshot()
	s.mu.Unlock()
	s.tr.LogRaw("srv", "srv.snapshot", fmt.Sprintf(`"rv":%d,"list":%s,"converged":%v`, realToModel(int64(rv)), listJSONObjs(l), s.Converged))
}

func listJSONObjs(l []MObj) string {
	b := []byte{'['}
	for i, o := range l {
		if i > 0 {
			b = append(b, ',')
		}
		b = append(b, fmt.Sprintf(`{"k":%q,"v":%d,"l":%d}`, o.K, o.V, o.L)...)
	}
	return string(append(b, ']'))
}

// ---- client.ListClient

func (s *FakeServer) List(ctx context.Context, opts metav1.ListOptions) (runtime.Object, error) {
	s.mu.Lock()
	idx := s.nList
	s.nList++
	var act ListAct
	if idx < len(s.lists) {
		act = s.lists[idx]
	}
	s.inFlight++
	if s.inFlight > s.maxInFlight {
		s.maxInFlight = s.inFlight
	}
	s.listTimes = append(s.listTimes, time.Now())
	s.tr.LogRaw("srv", "srv.listcall", fmt.Sprintf(`"n":%d,"inflight":%d,"rvopt":%q`, idx, s.inFlight, opts.ResourceVersion))
	var rv int
	var snap []MObj
	if act.Late {
		rv, snap = s.snapshot()
	}
	s.mu.Unlock()

	defer func() {
		s.mu.Lock()
		s.inFlight--
		s.mu.Unlock()
	}()

	if act.Delay > 0 {
		select {
		case <-time.After(act.Delay):
		case <-ctx.Done():
		}
	}
	if act.Gate != nil {
		select {
		case <-act.Gate:
		case <-ctx.Done():
		}
	}
	if ctx.Err() != nil {
		if act.Linger > 0 {
			// a client that needs a moment to notice the cancellation (it still returns in bounded time)
			time.Sleep(act.Linger)
		}
		s.tr.LogRaw("srv", "srv.listret", fmt.Sprintf(`"n":%d,"fail":"ctx","rv":0,"list":[]`, idx))
		return nil, ctx.Err()
	}
	s.mu.Lock()
	if !act.Late {
		rv, snap = s.snapshot()
	}
	if act.Repeat && s.havePrev {
		rv, snap = s.prevRV, s.prevSnap
	}
	if act.Fail == "" {
		s.havePrev, s.prevRV, s.prevSnap = true, rv, snap
	}
	extra := s.extra
	// logged while the snapshot is taken: the list content is fixed here
	s.tr.LogRaw("srv", "srv.listret", fmt.Sprintf(`"n":%d,"fail":%q,"rv":%d,"list":%s`, idx, act.Fail, realToModel(int64(rv)), listJSONObjs(snap)))
	s.nListRet++
	s.mu.Unlock()

	switch act.Fail {
	case "error":
		return nil, errors.New("fake list error")
	case "nil":
		return nil, nil
	case "notlist":
		return &corev1.Pod{}, nil
	case "status":
		// what an API server answers when it refuses: an object with list metadata and no items, but not a list
		return &metav1.Status{Status: metav1.StatusFailure, Reason: metav1.StatusReasonForbidden, Code: 403}, nil
	case "nonobject":
		return &metav1.List{ListMeta: metav1.ListMeta{ResourceVersion: strconv.Itoa(rv)}, Items: []runtime.RawExtension{{Object: &metav1.Status{}}, {Raw: []byte("{}")}}}, nil
	case "nonobject-mid":
		// a non-object item that is not the last one
		return &metav1.List{ListMeta: metav1.ListMeta{ResourceVersion: strconv.Itoa(rv)}, Items: []runtime.RawExtension{{Object: &metav1.Status{}}, {Object: mkPod("a", realToModel(int64(rv)), 0)}}}, nil
	case "ctxerr":
		return nil, context.Canceled
	case "nometa":
		// something with Items but without list metadata: not a list of API objects
		return &noMetaList{Items: []corev1.Pod{*mkPod("a", realToModel(int64(rv)), 0)}}, nil
	}
	pl := &corev1.PodList{ListMeta: metav1.ListMeta{ResourceVersion: strconv.Itoa(rv)}}
	for _, o := range snap {
		pl.Items = append(pl.Items, *mkPod(o.K, o.V, o.L))
	}
	if len(extra) > 0 {
		ml := &metav1.List{ListMeta: metav1.ListMeta{ResourceVersion: strconv.Itoa(rv)}}
		for i := range pl.Items {
			ml.Items = append(ml.Items, runtime.RawExtension{Object: &pl.Items[i]})
		}
		for _, e := range extra {
			ml.Items = append(ml.Items, runtime.RawExtension{Object: e})
		}
		return ml, nil
	}
	return pl, nil
}

type noMetaList struct {
	metav1.TypeMeta
	Items []corev1.Pod
}

func (l *noMetaList) DeepCopyObject() runtime.Object { c := *l; return &c }

// ---- client.WatchClient

type fakeWatch struct {
	s         *FakeServer
	idx       int
	act       WatchAct
	ch        chan watch.Event
	stop      chan struct{}
	kickch    chan struct{}
	once      sync.Once
	next      int // next history rv to deliver is > next
	sent      int
	delivered int // highest history version handed to the stream (guarded by s.mu)
	ctx       context.Context
	closeNow  int32
}

func (s *FakeServer) Watch(ctx context.Context, opts metav1.ListOptions) (watch.Interface, error) {
	s.mu.Lock()
	idx := s.nWatch
	s.nWatch++
	act := s.defWatch
	if idx < len(s.watchs) {
		act = s.watchs[idx]
	}
	from64, err := strconv.ParseInt(opts.ResourceVersion, 10, 64)
	if err != nil {
		from64 = 0
	}
	from := int(from64)
	kind := "ok"
	switch {
	case act.ConnErr:
		kind = "connerr"
	case act.Hang:
		kind = "hang"
	}
	s.tr.LogRaw("srv", "srv.watch", fmt.Sprintf(`"n":%d,"rv":%d,"raw":%q,"kind":%q`, idx, realToModel(from64), strconv.Itoa(verModel(opts.ResourceVersion)), kind))
	if act.ConnErr {
		s.mu.Unlock()
		switch act.ConnErrKind {
		case 1:
			return nil, context.DeadlineExceeded
		case 2:
			return nil, context.Canceled
		}
		return nil, errors.New("fake watch connect error")
	}
	if act.Hang {
		s.mu.Unlock()
		<-ctx.Done()
		return nil, ctx.Err()
	}
	if act.CloseAfter == 0 && !act.Mute && len(act.DropAt) == 0 && act.FromOlder == 0 && !hasFatalInject(act.Inject) {
		s.healthyAt = time.Now()
	} else {
		s.lastHealthyFloor = time.Now().Add(time.Nanosecond)
	}
	w := &fakeWatch{s: s, idx: idx, act: act, ch: make(chan watch.Event), stop: make(chan struct{}), kickch: make(chan struct{}, 1), next: from - act.FromOlder, ctx: ctx, delivered: from}
	s.watches[w] = true
	s.mu.Unlock()
	go w.hw_pump()
	return w, nil
}

func (w *fakeWatch) ResultChan() <-chan watch.Event { return w.ch }

func (w *fakeWatch) Stop() {
	w.once.Do(func() {
		close(w.stop)
		w.s.mu.Lock()
		delete(w.s.watches, w)
		w.s.mu.Unlock()
	})
}

func (w *fakeWatch) kick() {
	select {
	case w.kickch <- struct{}{}:
	default:
	}
}

func (w *fakeWatch) send(ev watch.Event, desc string) bool {
	w.s.tr.LogRaw("srv", "srv.frame", fmt.Sprintf(`"n":%d,%s`, w.idx, desc))
	select {
	case w.ch <- ev:
		return true
	case <-w.stop:
		return false
	case <-w.ctx.Done():
		return false
	}
}

func (w *fakeWatch) closeStream() {
	w.s.tr.LogRaw("srv", "srv.close", fmt.Sprintf(`"n":%d`, w.idx))
	close(w.ch)
	w.s.mu.Lock()
	delete(w.s.watches, w)
	w.s.mu.Unlock()
}

func (w *fakeWatch) hw_pump() {
	if w.act.CloseAfter < 0 {
		w.closeStream()
		return
	}
	frame := 0
	for {
		// deliver pending history
		for {
			w.s.mu.Lock()
			var ev *histEv
			if !w.act.Mute {
				for i := range w.s.hist {
					if w.s.hist[i].RV > w.next {
						e := w.s.hist[i]
						ev = &e
						break
					}
				}
			}
			w.s.mu.Unlock()
			if ev == nil {
				break
			}
			if kind, ok := w.act.Inject[frame]; ok {
				delete(w.act.Inject, frame)
				if !w.sendSpecial(kind) {
					return
				}
			}
			w.next = ev.RV
			if !w.act.DropAt[frame] {
				n := 1
				if w.act.DupAt[frame] {
					n = 2
				}
				for j := 0; j < n; j++ {
					desc := fmt.Sprintf(`"wt":%q,"o":{"k":%q,"v":%d,"l":%d},"kind":"obj"`, string(ev.Type), ev.O.K, ev.O.V, ev.O.L)
					if !w.send(watch.Event{Type: ev.Type, Object: w.s.frameObj(ev.O)}, desc) {
						return
					}
				}
			} else {
				w.s.tr.LogRaw("srv", "srv.dropframe", fmt.Sprintf(`"n":%d,"o":{"k":%q,"v":%d,"l":%d}`, w.idx, ev.O.K, ev.O.V, ev.O.L))
			}
			frame++
			w.sent++
			w.s.mu.Lock()
			w.delivered = ev.RV
			w.s.mu.Unlock()
			if w.act.CloseAfter > 0 && w.sent >= w.act.CloseAfter {
				w.closeStream()
				return
			}
		}
		select {
		case <-w.kickch:
			if atomic.LoadInt32(&w.closeNow) != 0 {
				// the driver asked this (idle) stream to be closed by the server
				w.closeStream()
				return
			}
		case <-w.stop:
			return
		case <-w.ctx.Done():
			return
		}
	}
}

// CloseIdleStreams lets the server close every stream that is connected right now (a watch timeout).
func (s *FakeServer) CloseIdleStreams() {
	s.mu.Lock()
	var ws []*fakeWatch
	for w := range s.watches {
		ws = append(ws, w)
	}
	s.mu.Unlock()
	for _, w := range ws {
		atomic.StoreInt32(&w.closeNow, 1)
		select {
		case w.kickch <- struct{}{}:
		default:
		}
	}
}

func (w *fakeWatch) sendSpecial(kind string) bool {
	desc := fmt.Sprintf(`"wt":%q,"o":{"k":"","v":0,"l":0},"kind":%q`, "SPECIAL", kind)
	switch kind {
	case "status":
		return w.send(watch.Event{Type: watch.Modified, Object: &metav1.Status{Status: "Failure", Message: "fake"}}, desc)
	case "error":
		return w.send(watch.Event{Type: watch.Error, Object: &metav1.Status{Status: "Failure", Reason: metav1.StatusReasonExpired, Code: 410}}, desc)
	case "bookmark":
		return w.send(watch.Event{Type: watch.Bookmark, Object: &corev1.Pod{ObjectMeta: metav1.ObjectMeta{ResourceVersion: strconv.Itoa(w.next)}}}, desc)
	case "unknown":
		return w.send(watch.Event{Type: watch.EventType("WEIRD"), Object: mkPod("a", 1, 0)}, desc)
	case "nilobj":
		return w.send(watch.Event{Type: watch.Modified, Object: nil}, desc)
	case "error-nil":
		return w.send(watch.Event{Type: watch.Error, Object: nil}, desc)
	case "error-pod":
		return w.send(watch.Event{Type: watch.Error, Object: mkPod("a", 1, 0)}, desc)
	case "nonobj":
		return w.send(watch.Event{Type: watch.Modified, Object: &metav1.List{}}, desc)
	}
	return true
}

func hasFatalInject(m map[int]string) bool {
	for _, k := range m {
		if k == "nilobj" || k == "nonobj" || k == "error-nil" {
			return true
		}
	}
	return false
}

// FaultsAhead: how many of the scripted Watch calls still to come end their stream at once or fail to connect,
// counted up to the first one that does not.
// ScriptTail replaces the watch script from the next Watch call on.
func (s *FakeServer) ScriptTail(acts []WatchAct) {
	s.mu.Lock()
	defer s.mu.Unlock()
	s.watchs = append(s.watchs[:s.nWatch:s.nWatch], acts...)
}

func (s *FakeServer) FaultsAhead() int {
	s.mu.Lock()
	defer s.mu.Unlock()
	n := 0
	for i := s.nWatch; i < len(s.watchs); i++ {
		a := s.watchs[i]
		if a.ConnErr || a.CloseAfter != 0 || hasFatalInject(a.Inject) {
			n++
			continue
		}
		break
	}
	return n
}

// HealthyWatchConnected: some connected stream has sent the whole history (so the cache must be current).
func (s *FakeServer) HealthyWatchConnected() bool {
	s.mu.Lock()
	defer s.mu.Unlock()
	for w := range s.watches {
		if !w.act.Mute && len(w.act.DropAt) == 0 && w.delivered >= s.rv {
			return true
		}
	}
	return false
}

// Stats for C13.
// InFlight: List calls that have not returned yet.
func (s *FakeServer) InFlight() int {
	s.mu.Lock()
	defer s.mu.Unlock()
	return s.inFlight
}

func (s *FakeServer) ListStats() (n int, maxInFlight int, times []time.Time) {
	s.mu.Lock()
	defer s.mu.Unlock()
	return s.nList, s.maxInFlight, append([]time.Time(nil), s.listTimes...)
}
