----------------------------- MODULE TypedProofs -----------------------------
(***************************************************************************)
(* TLAPS: in the design of the typed layer that the property asks for      *)
(* (Typed.tla with NilCallbackOnForeign = FALSE, ForeignInList = FALSE),   *)
(* for every set of own and foreign keys and every stream length: the      *)
(* typed handler is never called with a nil object, and every typed event  *)
(* and every handler call is about an object of the own type.  (The        *)
(* restriction equalities are checked by TLC within bounds; SelectSeq      *)
(* lemmas are not proved here.)                                             *)
(***************************************************************************)
EXTENDS Typed, TLAPS

ASSUME Design == NilCallbackOnForeign = FALSE /\ ForeignInList = FALSE
ASSUME NilIsNoKey == NilKey \notin OwnKeys

OwnEv == [et : STRING, k : OwnKeys, v : Nat]
AnyEv == [et : STRING, k : Keys, v : Nat]
Inv == /\ mcalls \in Seq(OwnEv)
       /\ tstream \in Seq(OwnEv)
       /\ ustream \in Seq(AnyEv)
       /\ spos \in Nat /\ spos <= Len(ustream)
       /\ mpos \in Nat /\ mpos <= Len(ustream)

THEOREM InvInductive == Spec => []Inv
<1>1. Init => Inv
  BY DEF Init, Inv
<1>2. Inv /\ [Next]_vars => Inv'
  <2> SUFFICES ASSUME Inv, [Next]_vars PROVE Inv'
    OBVIOUS
  <2>1. CASE Publish
    <3>1. PICK k \in Keys, del \in BOOLEAN :
            ustream' = Append(ustream, [et |-> IF del THEN "delete" ELSE IF ucache[k] = 0 THEN "create" ELSE "update", k |-> k, v |-> Len(ustream) + 1])
      BY <2>1 DEF Publish
    <3>2. [et |-> IF del THEN "delete" ELSE IF ucache[k] = 0 THEN "create" ELSE "update", k |-> k, v |-> Len(ustream) + 1] \in AnyEv
      BY DEF AnyEv, Inv
    <3> QED BY <2>1, <3>1, <3>2 DEF Publish, Inv
  <2>2. CASE TSubForward
    <3>1. ustream[spos + 1] \in AnyEv BY <2>2 DEF TSubForward, Inv
    <3>2. Own(ustream[spos + 1].k) => ustream[spos + 1] \in OwnEv BY <3>1 DEF Own, OwnEv, AnyEv
    <3> QED BY <2>2, <3>1, <3>2 DEF TSubForward, Inv
  <2>3. CASE TMonCallback
    <3>1. ustream[mpos + 1] \in AnyEv BY <2>3 DEF TMonCallback, Inv
    <3>2. Own(ustream[mpos + 1].k) => ustream[mpos + 1] \in OwnEv BY <3>1 DEF Own, OwnEv, AnyEv
    <3> QED BY <2>3, <3>1, <3>2, Design DEF TMonCallback, Inv
  <2>4. CASE TCacheList BY <2>4 DEF TCacheList, Inv
  <2>5. CASE TCacheGet BY <2>5 DEF TCacheGet, Inv
  <2>6. CASE UNCHANGED vars BY <2>6 DEF vars, Inv
  <2> QED BY <2>1, <2>2, <2>3, <2>4, <2>5, <2>6 DEF Next
<1> QED BY <1>1, <1>2, PTL DEF Spec

THEOREM NoNilCallbackAlways == Spec => []NoNilCallback
<1>1. Inv => NoNilCallback BY NilIsNoKey DEF Inv, NoNilCallback, OwnEv
<1> QED BY <1>1, InvInductive, PTL
=============================================================================
