--------------------------- MODULE MonitorProofs ---------------------------
(***************************************************************************)
(* TLAPS: for every MaxEvents and BufM, with callbacks dispatched in the   *)
(* monitor's own goroutine (GoDispatch = FALSE, the code), at most one     *)
(* handler callback is active at a time and OnInitialize is the first      *)
(* callback - the bounded TLC result of Monitor.cfg made unbounded.        *)
(***************************************************************************)
EXTENDS Monitor, TLAPS

ASSUME Code == GoDispatch = FALSE
ASSUME Nat1 == MaxEvents \in Nat /\ BufM \in Nat

Phases == {"wait", "cb", "loop", "done"}
TypeOK == /\ rdy \in BOOLEAN /\ subdone \in BOOLEAN /\ mdone \in BOOLEAN
          /\ phase \in Phases /\ active \in Nat
          /\ cblog \in Seq(Nat) /\ box \in Seq(Nat) /\ published \in Nat

\* the inductive invariant: a callback is active exactly while the goroutine is inside it
Inv == /\ TypeOK
       /\ (phase = "cb") => active = 1
       /\ (phase # "cb") => active = 0
       /\ (phase = "wait") => cblog = <<>>
       /\ (phase \in {"cb", "loop"}) => cblog # <<>>
       /\ \A i \in DOMAIN box : box[i] >= 1
       /\ cblog # <<>> => (cblog[1] = 0 /\ \A i \in 2..Len(cblog) : cblog[i] >= 1)
       /\ \A i \in DOMAIN box : box[i] <= published
       /\ \A i, j \in DOMAIN box : i < j => box[i] < box[j]
       /\ \A i \in 2..Len(cblog) : cblog[i] <= published /\ \A j \in DOMAIN box : cblog[i] < box[j]
       /\ InOrder

THEOREM InvInductive == Spec => []Inv
<1>1. Init => Inv
  BY Nat1 DEF Init, Inv, TypeOK, Phases, InOrder
<1>2. Inv /\ [Next]_vars => Inv'
  <2> SUFFICES ASSUME Inv, [Next]_vars PROVE Inv'
    OBVIOUS
  <2>1. CASE SubReady BY <2>1 DEF SubReady, Inv, TypeOK, Phases, InOrder
  <2>2. CASE Publish BY <2>2, Nat1 DEF Publish, Inv, TypeOK, Phases, InOrder
  <2>3. CASE SubDone BY <2>3 DEF SubDone, Inv, TypeOK, Phases, InOrder
  <2>4. CASE MInit BY <2>4, Code DEF MInit, Inv, TypeOK, Phases, InOrder
  <2>5. CASE MEarlyStop BY <2>5 DEF MEarlyStop, Inv, TypeOK, Phases, InOrder
  <2>6. CASE MTake BY <2>6, Code DEF MTake, Inv, TypeOK, Phases, InOrder
  <2>7. CASE MExit BY <2>7, Code DEF MExit, Inv, TypeOK, Phases, InOrder
  <2>8. CASE MStop BY <2>8 DEF MStop, Inv, TypeOK, Phases, InOrder
  <2>9. CASE UNCHANGED vars BY <2>9 DEF vars, Inv, TypeOK, Phases, InOrder
  <2> QED BY <2>1, <2>2, <2>3, <2>4, <2>5, <2>6, <2>7, <2>8, <2>9 DEF Next
<1> QED BY <1>1, <1>2, PTL DEF Spec

THEOREM SerialAlways == Spec => []Serial
<1>1. Inv => Serial BY DEF Inv, Serial, TypeOK
<1> QED BY <1>1, InvInductive, PTL

THEOREM InOrderAlways == Spec => []InOrder
<1>1. Inv => InOrder BY DEF Inv
<1> QED BY <1>1, InvInductive, PTL

THEOREM InitFirstOnceAlways == Spec => []InitFirstOnce
<1>1. Inv => InitFirstOnce BY DEF Inv, InitFirstOnce, TypeOK
<1> QED BY <1>1, InvInductive, PTL
=============================================================================
