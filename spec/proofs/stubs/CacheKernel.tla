----------------------------- MODULE CacheKernel -----------------------------
(***************************************************************************)
(* Proof-only signature of CacheKernel.tla (tlapm has no RECURSIVE): the   *)
(* operators FilterNode.tla uses, uninterpreted.  A theorem proved over    *)
(* this signature holds for every interpretation of them, in particular    *)
(* for the real CacheKernel.  Used only by tools/vlib.prove, which puts it *)
(* in place of the real module in a scratch copy; TLC never sees it.       *)
(***************************************************************************)
EXTENDS Integers, Sequences, FiniteSets
CONSTANTS Keys, Labels, Filters, Absent,
          Entry(_, _), Obj(_, _, _), AcceptE(_, _, _), FilterInv(_, _),
          EventsOK(_, _, _), SyncFold(_, _, _), UpdateAlg(_, _, _, _), SetToSeqs(_), SetToSeq(_)
=============================================================================
