----------------------------- MODULE JoinProofs -----------------------------
(***************************************************************************)
(* TLAPS: the design of the generated joins (Join.tla, Refilter issued      *)
(* synchronously from the source monitor as in the code) for every set of   *)
(* sources and destinations, every selection relation and every number of   *)
(* changes: once both sides quiesce the join holds exactly the destination  *)
(* objects selected by a current source (C09), it is ready only after both  *)
(* sides, and it holds nothing before it is ready.  TLC checks the same     *)
(* within the bounds of Join.cfg.                                           *)
(***************************************************************************)
EXTENDS Join, TLAPS

ASSUME Sync == AsyncRefilter = FALSE

Pending == IF reqs # <<>> THEN reqs[1] ELSE jfilter     \* the filter that will be in force once requests are taken

Inv == /\ monq \in Nat /\ srcCache \in SUBSET Sources
       /\ reqs \in Seq(SUBSET Sources) /\ Len(reqs) <= 1
       /\ monInit => srcReady
       /\ ~monInit => (reqs = <<>> /\ ~supplied)
       /\ jready <=> (supplied /\ dstReady)
       /\ jready => jcache = Selected(jfilter, dstCache)
       /\ ~jready => jcache = {}
       /\ (monInit /\ monq = 0) => Pending = srcCache

THEOREM InvInductive == Spec => []Inv
<1>1. Init => Inv
  BY DEF Init, Inv, Pending
<1>2. Inv /\ [Next]_vars => Inv'
  <2> SUFFICES ASSUME Inv, [Next]_vars PROVE Inv'
    OBVIOUS
  <2>1. CASE SrcReady BY <2>1 DEF SrcReady, Inv, Pending
  <2>2. CASE SrcChange BY <2>2 DEF SrcChange, Inv, Pending
  <2>3. CASE MonInit
    <3>1. reqs = <<>> /\ reqs' = <<srcCache>> BY <2>3 DEF MonInit, Issue, Inv
    <3> QED BY <2>3, <3>1 DEF MonInit, Issue, Inv, Pending
  <2>4. CASE MonCallback
    <3>1. reqs = <<>> /\ reqs' = <<srcCache>> BY <2>4, Sync DEF MonCallback, Issue, Inv
    <3> QED BY <2>4, <3>1 DEF MonCallback, Issue, Inv, Pending
  <2>5. CASE FRefilter
    <3>1. Len(reqs) = 1 BY <2>5 DEF FRefilter, Inv
    <3>2. jfilter' = reqs[1] /\ reqs' = <<>> /\ supplied'
      BY <2>5, <3>1, Sync DEF FRefilter, Inv
    <3> QED BY <2>5, <3>1, <3>2 DEF FRefilter, Inv, Pending
  <2>6. CASE DstReady BY <2>6 DEF DstReady, Inv, Pending
  <2>7. CASE DstChange BY <2>7 DEF DstChange, Inv, Pending
  <2>8. CASE UNCHANGED vars BY <2>8 DEF vars, Inv, Pending
  <2> QED BY <2>1, <2>2, <2>3, <2>4, <2>5, <2>6, <2>7, <2>8 DEF Next
<1> QED BY <1>1, <1>2, PTL DEF Spec

THEOREM QuiescentAlways == Spec => []Quiescent
<1>1. Inv => Quiescent BY DEF Inv, Quiescent, Pending
<1> QED BY <1>1, InvInductive, PTL

THEOREM ReadyAfterBothAlways == Spec => []ReadyAfterBoth
<1>1. Inv => ReadyAfterBoth BY DEF Inv, ReadyAfterBoth
<1> QED BY <1>1, InvInductive, PTL

THEOREM EmptyBeforeReadyAlways == Spec => []EmptyBeforeReady
<1>1. Inv => EmptyBeforeReady BY DEF Inv, EmptyBeforeReady
<1> QED BY <1>1, InvInductive, PTL
=============================================================================
