-------------------------- MODULE FilterNodeProofs --------------------------
(***************************************************************************)
(* TLAPS: C08's readiness clauses of FilterNode.tla for every universe,    *)
(* every number of parent mutations and refilters (TLC checks them within  *)
(* the bounds of FilterNode-*.cfg): a filtered node is ready only after    *)
(* its parent is ready and was seen ready, a deferred node only after a    *)
(* filter was supplied, and nothing is emitted before ready.  The cache    *)
(* algorithms (SyncFold, UpdateAlg) stay opaque: readiness does not depend *)
(* on what they compute.                                                    *)
(***************************************************************************)
EXTENDS FilterNode, TLAPS

Inv == /\ ready => (pr /\ pdone /\ (Deferred => supplied))
       /\ pdone => pr
       /\ pending => supplied
       /\ ~ready => out = <<>>
       /\ Deferred \in BOOLEAN /\ ready \in BOOLEAN /\ pdone \in BOOLEAN /\ pending \in BOOLEAN /\ pr \in BOOLEAN /\ supplied \in BOOLEAN

ASSUME DeferredBool == Deferred \in BOOLEAN

THEOREM InvInductive == Spec => []Inv
<1>1. Init => Inv
  BY DeferredBool DEF Init, Inv
<1>2. Inv /\ [Next]_vars => Inv'
  <2> SUFFICES ASSUME Inv, [Next]_vars PROVE Inv'
    OBVIOUS
  <2>1. CASE PMutate BY <2>1 DEF PMutate, Inv
  <2>2. CASE PReady BY <2>2 DEF PReady, Inv
  <2>3. CASE FParentReady BY <2>3 DEF FParentReady, Inv
  <2>4. CASE FEvent BY <2>4 DEF FEvent, Inv
  <2>5. ASSUME NEW f \in Filters, FRefilter(f) PROVE Inv'
    BY <2>5 DEF FRefilter, Inv
  <2>6. CASE UNCHANGED vars BY <2>6 DEF vars, Inv
  <2> QED BY <2>1, <2>2, <2>3, <2>4, <2>5, <2>6 DEF Next
<1> QED BY <1>1, <1>2, PTL DEF Spec

THEOREM ReadyImpliesParentAlways == Spec => []ReadyImpliesParent
<1>1. Inv => ReadyImpliesParent BY DEF Inv, ReadyImpliesParent
<1> QED BY <1>1, InvInductive, PTL

THEOREM SilentBeforeReadyAlways == Spec => []SilentBeforeReady
<1>1. Inv => SilentBeforeReady BY DEF Inv, SilentBeforeReady
<1> QED BY <1>1, InvInductive, PTL
=============================================================================
