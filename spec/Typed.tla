-------------------------------- MODULE Typed --------------------------------
(***************************************************************************)
(* Design model of a typed package (types/*/generated.go, one instance of  *)
(* types/gen/template.go) on top of the untyped core (C20).                 *)
(*                                                                          *)
(* The untyped core below a typed controller publishes events about        *)
(* objects of the package's own type and - when the API hands them over -   *)
(* of another type ("foreign").  The typed layer is three adapters over     *)
(* the same untyped parts:                                                  *)
(*   TSubForward   subscription adapter goroutine: one untyped event in,    *)
(*                 one typed event out when the object has the own type,    *)
(*                 nothing otherwise                                         *)
(*   TCacheList /  typed cache: List() adapts every cached object and       *)
(*   TCacheGet     skips the ones that do not adapt; Get() of a foreign     *)
(*                 object is "not found"                                     *)
(*   TMonCallback  typed monitor: the untyped monitor calls the typed        *)
(*                 handler adapter for every untyped event                   *)
(* The environment (Publish) is the untyped core with the Null filter: a    *)
(* create/update/delete of one key with a fresh version, applied to the     *)
(* untyped cache and appended to the untyped stream.                        *)
(*                                                                          *)
(* C20: the typed view is the untyped view restricted to the type.          *)
(*                                                                          *)
(* Deviation constant, named after what the pinned code does:               *)
(*   NilCallbackOnForeign  TRUE in the code (known finding D8): the monitor *)
(*       adapter discards the adaptation error and calls the user's         *)
(*       callback with a nil object for a foreign event.  The shipped       *)
(*       configuration checks the design the property asks for (FALSE); the *)
(*       code's value is refuted in cfg/deviations/Typed-nilcallback.cfg,   *)
(*       which is the design-level statement of D8.                         *)
(*   ForeignInList  FALSE in the code: TRUE models a typed List() that      *)
(*       returns a nil entry for a foreign object instead of skipping it.   *)
(***************************************************************************)
EXTENDS Integers, Sequences, FiniteSets

CONSTANTS OwnKeys, ForeignKeys, MaxEv, NilCallbackOnForeign, ForeignInList

VARIABLES ucache,   \* untyped cache: key -> version (0 = absent)
          ustream,  \* untyped events published so far: [et, k, v]
          spos,     \* how many of them the typed subscription adapter has consumed
          tstream,  \* typed events it has emitted
          mpos,     \* how many the monitor has consumed
          mcalls,   \* handler calls: [et, k, v] with k = "nil" for a nil object
          reads     \* results of typed cache reads: [op, at, res]
vars == <<ucache, ustream, spos, tstream, mpos, mcalls, reads>>

Keys == OwnKeys \cup ForeignKeys
Own(k) == k \in OwnKeys
NilKey == "nil"

Init == /\ ucache = [k \in Keys |-> 0] /\ ustream = <<>> /\ spos = 0 /\ tstream = <<>>
        /\ mpos = 0 /\ mcalls = <<>> /\ reads = <<>>

\* the untyped core: one change of one key, cache first, then the event
Publish ==
  /\ Len(ustream) < MaxEv
  /\ \E k \in Keys, del \in BOOLEAN :
       LET v == Len(ustream) + 1 IN
       /\ (del => ucache[k] # 0)
       /\ ucache' = [ucache EXCEPT ![k] = IF del THEN 0 ELSE v]
       /\ ustream' = Append(ustream, [et |-> IF del THEN "delete" ELSE IF ucache[k] = 0 THEN "create" ELSE "update", k |-> k, v |-> v])
  /\ UNCHANGED <<spos, tstream, mpos, mcalls, reads>>

\* typed subscription adapter: takes the next untyped event
TSubForward ==
  /\ spos < Len(ustream)
  /\ spos' = spos + 1
  /\ LET e == ustream[spos + 1] IN
     tstream' = IF Own(e.k) THEN Append(tstream, e) ELSE tstream
  /\ UNCHANGED <<ucache, ustream, mpos, mcalls, reads>>

\* typed monitor: the untyped monitor hands the next event to the typed handler adapter
TMonCallback ==
  /\ mpos < Len(ustream)
  /\ mpos' = mpos + 1
  /\ LET e == ustream[mpos + 1] IN
     mcalls' = IF Own(e.k) THEN Append(mcalls, e)
               ELSE IF NilCallbackOnForeign THEN Append(mcalls, [et |-> e.et, k |-> NilKey, v |-> 0])
               ELSE mcalls
  /\ UNCHANGED <<ucache, ustream, spos, tstream, reads>>

\* typed cache reads (at most one recorded, they do not change the system)
TCacheList ==
  /\ Len(reads) < 1
  /\ reads' = Append(reads, [op |-> "list", at |-> ucache,
                             res |-> {k \in Keys : ucache[k] # 0 /\ (Own(k) \/ ForeignInList)}])
  /\ UNCHANGED <<ucache, ustream, spos, tstream, mpos, mcalls>>
TCacheGet ==
  /\ Len(reads) < 1
  /\ \E k \in Keys :
       reads' = Append(reads, [op |-> "get", at |-> ucache, res |-> IF ucache[k] # 0 /\ Own(k) THEN {k} ELSE {}])
  /\ UNCHANGED <<ucache, ustream, spos, tstream, mpos, mcalls>>

Next == Publish \/ TSubForward \/ TMonCallback \/ TCacheList \/ TCacheGet
Spec == Init /\ [][Next]_vars /\ WF_vars(TSubForward) /\ WF_vars(TMonCallback)

(* ------------------------------------------------------------------ properties *)
OwnOf(s) == SelectSeq(s, LAMBDA e : Own(e.k))
Prefix(s, n) == SubSeq(s, 1, n)
\* the typed subscriber has seen exactly the own-type events of what its adapter consumed, in order
TypedStreamIsRestriction == tstream = OwnOf(Prefix(ustream, spos))
\* the typed handler was called exactly for the own-type events, in order, never with a nil object
MonitorIsRestriction == mcalls = OwnOf(Prefix(ustream, mpos))
NoNilCallback == \A i \in DOMAIN mcalls : mcalls[i].k # NilKey
\* a typed listing is the untyped content restricted to the type; a foreign object is never returned
TypedReadsAreRestriction ==
  \A i \in DOMAIN reads : /\ reads[i].res \subseteq OwnKeys
                          /\ (reads[i].op = "list" => reads[i].res = {k \in OwnKeys : reads[i].at[k] # 0})
\* liveness: both adapters catch up with the untyped stream
CatchUp == <>[](spos = Len(ustream) /\ mpos = Len(ustream))
=============================================================================
