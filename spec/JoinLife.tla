------------------------------ MODULE JoinLife ------------------------------
(***************************************************************************)
(* Design model of the LIFECYCLE of a generated join (join/generated_*.go) *)
(* - the part Join.tla leaves out: who closes whom (C11, C12, C09).         *)
(*                                                                          *)
(*   dst      := dstController.CloneForFilter()      (the join's result)    *)
(*   monitor  := NewMonitor(srcController, handler)  (calls dst.Refilter)   *)
(*   go func() { <-dst.Done(); monitor.Close() }()   (the "waiter")         *)
(*                                                                          *)
(* Actors: the source controller, the destination publisher, the clone      *)
(* (= the join the user holds), the source monitor, the waiter goroutine.   *)
(* Shutdown must go DOWN only: closing the destination publisher closes the *)
(* clone; closing the clone ends the monitor (through the waiter); closing  *)
(* the source ends the monitor but NOT the clone (the join keeps its last   *)
(* filter); nothing the join does closes the source or the destination.     *)
(*   MonitorLeak = TRUE : deviation - no waiter goroutine (the monitor of a *)
(*                        closed join lives as long as the source) - must   *)
(*                        be refuted (NoLeak).                              *)
(***************************************************************************)
EXTENDS Naturals

CONSTANT MonitorLeak

VARIABLES src,      \* source controller: "alive" | "closed"
          dstPub,   \* destination publisher: "alive" | "closed"
          clone,    \* the join: "alive" | "closed"
          why,      \* why the clone closed: "-" | "user" | "parent"
          mon,      \* source monitor: "running" | "done"
          waiter,   \* "waiting" | "done"
          refErr    \* a Refilter hit a closed clone (tolerated, logged nowhere): 0..1
vars == <<src, dstPub, clone, why, mon, waiter, refErr>>

Init == src = "alive" /\ dstPub = "alive" /\ clone = "alive" /\ why = "-" /\ mon = "running" /\ waiter = "waiting" /\ refErr = 0

UserClose == /\ clone = "alive" /\ clone' = "closed" /\ why' = "user" /\ UNCHANGED <<src, dstPub, mon, waiter, refErr>>
DstPubClose == /\ dstPub = "alive" /\ dstPub' = "closed" /\ UNCHANGED <<src, clone, why, mon, waiter, refErr>>
\* cascade: a clone ends when its parent publisher ended
CloneFollowsParent == /\ dstPub = "closed" /\ clone = "alive" /\ clone' = "closed" /\ why' = "parent"
                      /\ UNCHANGED <<src, dstPub, mon, waiter, refErr>>
SrcClose == /\ src = "alive" /\ src' = "closed" /\ UNCHANGED <<dstPub, clone, why, mon, waiter, refErr>>
\* the monitor ends when its subscription to the source ends
MonFollowsSrc == /\ src = "closed" /\ mon = "running" /\ mon' = "done" /\ UNCHANGED <<src, dstPub, clone, why, waiter, refErr>>
\* the waiter: <-dst.Done(); monitor.Close()
WaiterFires == /\ ~MonitorLeak /\ waiter = "waiting" /\ clone = "closed"
               /\ waiter' = "done" /\ mon' = "done" /\ UNCHANGED <<src, dstPub, clone, why, refErr>>
\* a source callback: Refilter on the clone; on a closed clone it returns an error and nothing else happens
MonCallback == /\ mon = "running" /\ src = "alive"
               /\ refErr' = IF clone = "closed" THEN 1 ELSE refErr
               /\ UNCHANGED <<src, dstPub, clone, why, mon, waiter>>

Next == UserClose \/ DstPubClose \/ CloneFollowsParent \/ SrcClose \/ MonFollowsSrc \/ WaiterFires \/ MonCallback
Spec == Init /\ [][Next]_vars /\ WF_vars(CloneFollowsParent) /\ WF_vars(MonFollowsSrc) /\ WF_vars(WaiterFires)

TypeOK == /\ src \in {"alive", "closed"} /\ dstPub \in {"alive", "closed"} /\ clone \in {"alive", "closed"}
          /\ why \in {"-", "user", "parent"} /\ mon \in {"running", "done"} /\ waiter \in {"waiting", "done"} /\ refErr \in 0..1
\* C11 - never sideways: the source's end alone never closes the join
CloseHasCause == /\ (clone = "closed") <=> (why # "-")
                 /\ why = "parent" => dstPub = "closed"
\* C11 - never up: only their owners close the source and the destination publisher
NeverUp == [][(src' # src => SrcClose) /\ (dstPub' # dstPub => DstPubClose)]_vars
\* the monitor ends only for a reason
MonEndHasCause == mon = "done" => (src = "closed" \/ clone = "closed")
\* a Refilter error can only come from a closed join
RefErrOnlyAfterClose == refErr = 1 => clone = "closed"
\* C11 - down: the destination's end reaches the join;  C12 - no leak: the monitor of a closed join ends
CascadeDown == (dstPub = "closed") ~> (clone = "closed")
NoLeak == (clone = "closed") ~> (mon = "done")
SrcEndStopsMonitor == (src = "closed") ~> (mon = "done")
=============================================================================
