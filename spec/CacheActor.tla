----------------------------- MODULE CacheActor -----------------------------
(***************************************************************************)
(* Design model of the cache goroutine as an actor (cache.go run loop):    *)
(* every request - sync, update, refilter, List, Get - is served by one    *)
(* goroutine, one at a time (C15).                                          *)
(*                                                                          *)
(* A writer moves the cache between complete states (sets of keys) with     *)
(* multi-key syncs; readers call List: Call -> Serve (the linearization    *)
(* point, inside the cache goroutine) -> Return.                            *)
(* A sync is modelled in its two passes (insert/update pass, then the       *)
(* "delete what is missing" pass).  With TornSync = FALSE (the code) no     *)
(* other request is served between the passes; TornSync = TRUE is the       *)
(* deviation "serve a pending List between the passes".                     *)
(***************************************************************************)
EXTENDS Integers, FiniteSets, Sequences

CONSTANTS KeysC, Readers, States, TornSync      \* States: the complete states the writer alternates between (sets of keys)

VARIABLES items, mid, target, rstate, rresult, seen, history
vars == <<items, mid, target, rstate, rresult, seen, history>>

Init == /\ items = {} /\ mid = FALSE /\ target = {}
        /\ rstate = [r \in Readers |-> "idle"] /\ rresult = [r \in Readers |-> {}]
        /\ seen = [r \in Readers |-> {}] /\ history = {{}}

\* first pass of doSync: everything listed is inserted
SyncPass1(S) == /\ ~mid /\ S \in States /\ S # items
                /\ items' = items \cup S /\ mid' = TRUE /\ target' = S
                /\ UNCHANGED <<rstate, rresult, seen, history>>
\* second pass: everything not listed is removed; the new complete state exists from here on
SyncPass2 == /\ mid /\ items' = target /\ mid' = FALSE
             /\ history' = history \cup {target}
             /\ seen' = [r \in Readers |-> IF rstate[r] \in {"called", "served"} THEN seen[r] \cup {target} ELSE seen[r]]
             /\ UNCHANGED <<target, rstate, rresult>>

Call(r) == /\ rstate[r] = "idle" /\ rstate' = [rstate EXCEPT ![r] = "called"]
           /\ seen' = [seen EXCEPT ![r] = IF mid THEN {} ELSE {items}]
           /\ UNCHANGED <<items, mid, target, rresult, history>>
\* the cache goroutine serves the List request: between requests only, unless TornSync
Serve(r) == /\ rstate[r] = "called" /\ (mid => TornSync)
            /\ rresult' = [rresult EXCEPT ![r] = items] /\ rstate' = [rstate EXCEPT ![r] = "served"]
            /\ UNCHANGED <<items, mid, target, seen, history>>
Return(r) == /\ rstate[r] = "served" /\ rstate' = [rstate EXCEPT ![r] = "idle"]
             /\ UNCHANGED <<items, mid, target, rresult, seen, history>>

Next == (\E S \in States : SyncPass1(S)) \/ SyncPass2 \/ \E r \in Readers : Call(r) \/ Serve(r) \/ Return(r)
Spec == Init /\ [][Next]_vars

\* every snapshot is a complete state the writer produced - never a half-applied sync
Atomic == \A r \in Readers : rstate[r] = "served" => rresult[r] \in history
\* ... and it is the content at some instant between call and return
Linearizable == \A r \in Readers : rstate[r] = "served" => rresult[r] \in seen[r]
=============================================================================
