-------------------------------- MODULE Tree --------------------------------
(***************************************************************************)
(* Design model of kcache's publish/subscribe tree (publisher.go,           *)
(* subscription.go, the Clone constructors) with its shutdown cascade.      *)
(*                                                                          *)
(* A tree of two kinds of actors, created dynamically:                      *)
(*   sub  a subscription: one goroutine moving events from its unbuffered   *)
(*        inbox into a bounded outbox, dropping the newest when it is full  *)
(*   pub  a publisher: one goroutine that takes an event from the outbox    *)
(*        of the subscription it reads and hands it to every child          *)
(*        subscription in turn (blocking rendezvous), then takes the next   *)
(* Node 1 is the root subscription (fed by the controller, here an abstract *)
(* source that emits events 1..MaxEvents), node 2 the root publisher.       *)
(* Subscribe(p) adds a leaf subscription below publisher p, Clone(p) a      *)
(* subscription plus a publisher reading it.  Leaves are read by consumers  *)
(* that are healthy or stalled (never read).                                *)
(*                                                                          *)
(* One action per select case / critical section of the code:               *)
(*   SrcEmit       controller.distributeEvents -> root subscription         *)
(*   PubTake       publisher.run: case evt := <-parent.Events()             *)
(*   PubSend(p,c)  publisher.distributeEvent: sub.send(evt) for one child   *)
(*                 (subscription.run's inbox case runs in the same step:    *)
(*                 rendezvous; enqueue, or drop when the outbox is full)    *)
(*   Subscribe/Clone  publisher.run: case resultch := <-subscribech         *)
(*   Consume(s)    a reader of Events()                                     *)
(*   Close(n)      Subscription.Close / Controller.Close of a clone         *)
(*   SubStop(s)    subscription.run: shutdown request (own Close, or the    *)
(*                 stop channel of its publisher / controller)              *)
(*   PubStop(p)    publisher.run: parent events closed                      *)
(*   PubDone(p)    publisher.run: all children unsubscribed, parent done    *)
(*   RootStop      the controller shuts down                                *)
(***************************************************************************)
EXTENDS Integers, Sequences, FiniteSets, SequencesExt

CONSTANTS MaxNodes,     \* bound on the number of actors
          MaxEvents,    \* events the source emits
          Buf,          \* outbox capacity (EventBufsiz in the code)
          MaxDepth,     \* bound on the depth of clones
          BlockingSend  \* deviation: TRUE models a subscription that blocks instead of dropping when its outbox is full

VARIABLES nodes, kind, par, depth, mode, life, req, box, drops, recv, pend, tgt, log, reg, emitted, rootStopped, closedTops
vars == <<nodes, kind, par, depth, mode, life, req, box, drops, recv, pend, tgt, log, reg, emitted, rootStopped, closedTops>>

NIL == 0
ROOT == 0                       \* "parent" of the root subscription
Subs == {n \in nodes : kind[n] = "sub"}
Pubs == {n \in nodes : kind[n] = "pub"}
Kids(p) == {c \in Subs : par[c] = p}
Reader(s) == {p \in Pubs : par[p] = s}          \* the publisher reading subscription s, if any
Leaf(s) == s \in Subs /\ Reader(s) = {}

RECURSIVE Anc(_)
Anc(n) == IF n = ROOT THEN {} ELSE {n} \cup Anc(par[n])      \* n and its ancestors

Init ==
  /\ nodes = {1, 2}
  /\ kind = (1 :> "sub") @@ (2 :> "pub")
  /\ par = (1 :> ROOT) @@ (2 :> 1)
  /\ depth = (1 :> 0) @@ (2 :> 0)
  /\ mode = (1 :> "none") @@ (2 :> "none")
  /\ life = (1 :> "run") @@ (2 :> "run")
  /\ req = (1 :> FALSE) @@ (2 :> FALSE)
  /\ box = (1 :> <<>>) @@ (2 :> <<>>)
  /\ drops = (1 :> 0) @@ (2 :> 0)
  /\ recv = (1 :> <<>>) @@ (2 :> <<>>)
  /\ pend = (1 :> NIL) @@ (2 :> NIL)
  /\ tgt = (1 :> {}) @@ (2 :> {})
  /\ log = (1 :> <<>>) @@ (2 :> <<>>)
  /\ reg = (1 :> 0) @@ (2 :> 0)
  /\ emitted = 0 /\ rootStopped = FALSE /\ closedTops = {}

Ext(f, n, v) == (n :> v) @@ f
NewNode == CHOOSE n \in 1..(MaxNodes + 2) : n \notin nodes

\* deliver event e to subscription s (the subscription's inbox case): enqueue or drop-newest
Deliver(s, e) ==
  IF Len(box[s]) < Buf THEN /\ box' = [box EXCEPT ![s] = Append(@, e)] /\ UNCHANGED drops
  ELSE /\ drops' = [drops EXCEPT ![s] = @ + 1] /\ UNCHANGED box

\* controller -> root subscription (rendezvous; the root subscription must be running)
SrcEmit ==
  /\ emitted < MaxEvents /\ life[1] = "run" /\ ~rootStopped
  /\ (BlockingSend => Len(box[1]) < Buf)
  /\ emitted' = emitted + 1
  /\ Deliver(1, emitted + 1)
  /\ UNCHANGED <<nodes, kind, par, depth, mode, life, req, recv, pend, tgt, log, reg, rootStopped, closedTops>>

PubTake(p) ==
  /\ p \in Pubs /\ life[p] = "run" /\ pend[p] = NIL /\ box[par[p]] # <<>>
  /\ pend' = [pend EXCEPT ![p] = Head(box[par[p]])]
  /\ box' = [box EXCEPT ![par[p]] = Tail(@)]
  /\ log' = [log EXCEPT ![p] = Append(@, Head(box[par[p]]))]
  /\ tgt' = [tgt EXCEPT ![p] = Kids(p)]
  /\ UNCHANGED <<nodes, kind, par, depth, mode, life, req, drops, recv, reg, emitted, rootStopped, closedTops>>

\* one child: a running child takes the event (or the send returns ErrNotRunning)
PubSend(p, c) ==
  /\ p \in Pubs /\ pend[p] # NIL /\ c \in tgt[p]
  /\ (BlockingSend /\ life[c] = "run" => Len(box[c]) < Buf)
  /\ tgt' = [tgt EXCEPT ![p] = @ \ {c}]
  /\ IF life[c] = "run" THEN Deliver(c, pend[p]) ELSE UNCHANGED <<box, drops>>
  /\ UNCHANGED <<nodes, kind, par, depth, mode, life, req, recv, pend, log, reg, emitted, rootStopped, closedTops>>

PubSent(p) ==
  /\ p \in Pubs /\ pend[p] # NIL /\ tgt[p] = {}
  /\ pend' = [pend EXCEPT ![p] = NIL]
  /\ UNCHANGED <<nodes, kind, par, depth, mode, life, req, box, drops, recv, tgt, log, reg, emitted, rootStopped, closedTops>>

AddSub(p, n, m) ==
  /\ nodes' = nodes \cup {n}
  /\ kind' = Ext(kind, n, "sub") /\ par' = Ext(par, n, p) /\ depth' = Ext(depth, n, depth[p] + 1)
  /\ mode' = Ext(mode, n, m) /\ life' = Ext(life, n, "run") /\ req' = Ext(req, n, FALSE)
  /\ box' = Ext(box, n, <<>>) /\ drops' = Ext(drops, n, 0) /\ recv' = Ext(recv, n, <<>>)
  /\ pend' = Ext(pend, n, NIL) /\ tgt' = Ext(tgt, n, {}) /\ log' = Ext(log, n, <<>>)
  /\ reg' = Ext(reg, n, Len(log[p]))          \* it will be handed every event the publisher takes from now on

\* served by the publisher between two events
Subscribe(p, m) ==
  /\ p \in Pubs /\ life[p] = "run" /\ pend[p] = NIL /\ Cardinality(nodes) < MaxNodes + 2
  /\ AddSub(p, NewNode, m)
  /\ UNCHANGED <<emitted, rootStopped, closedTops>>

Clone(p) ==
  /\ p \in Pubs /\ life[p] = "run" /\ pend[p] = NIL /\ Cardinality(nodes) + 1 < MaxNodes + 2 /\ depth[p] < MaxDepth
  /\ LET s == NewNode  q == CHOOSE n \in 1..(MaxNodes + 2) : n \notin nodes \cup {s} IN
     /\ nodes' = nodes \cup {s, q}
     /\ kind' = (s :> "sub") @@ (q :> "pub") @@ kind
     /\ par' = (s :> p) @@ (q :> s) @@ par
     /\ depth' = (s :> depth[p] + 1) @@ (q :> depth[p] + 1) @@ depth
     /\ mode' = (s :> "none") @@ (q :> "none") @@ mode
     /\ life' = (s :> "run") @@ (q :> "run") @@ life
     /\ req' = (s :> FALSE) @@ (q :> FALSE) @@ req
     /\ box' = (s :> <<>>) @@ (q :> <<>>) @@ box
     /\ drops' = (s :> 0) @@ (q :> 0) @@ drops
     /\ recv' = (s :> <<>>) @@ (q :> <<>>) @@ recv
     /\ pend' = (s :> NIL) @@ (q :> NIL) @@ pend
     /\ tgt' = (s :> {}) @@ (q :> {}) @@ tgt
     /\ log' = (s :> <<>>) @@ (q :> <<>>) @@ log
     /\ reg' = (s :> Len(log[p])) @@ (q :> 0) @@ reg
  /\ UNCHANGED <<emitted, rootStopped, closedTops>>

Consume(s) ==
  /\ Leaf(s) /\ mode[s] = "healthy" /\ box[s] # <<>>
  /\ recv' = [recv EXCEPT ![s] = Append(@, Head(box[s]))]
  /\ box' = [box EXCEPT ![s] = Tail(@)]
  /\ UNCHANGED <<nodes, kind, par, depth, mode, life, req, drops, pend, tgt, log, reg, emitted, rootStopped, closedTops>>

\* Close() of a leaf subscription, or of a clone (which closes the subscription it reads)
Close(n) ==
  /\ n \in nodes /\ n \notin {1, 2}
  /\ LET top == IF kind[n] = "pub" THEN par[n] ELSE n IN
     /\ (kind[n] = "sub" => Leaf(n))
     /\ ~req[top] /\ life[top] = "run"
     /\ req' = [req EXCEPT ![top] = TRUE]
     /\ closedTops' = closedTops \cup {top}
  /\ UNCHANGED <<nodes, kind, par, depth, mode, life, box, drops, recv, pend, tgt, log, reg, emitted, rootStopped>>

RootStop ==
  /\ ~rootStopped /\ rootStopped' = TRUE
  /\ UNCHANGED <<nodes, kind, par, depth, mode, life, req, box, drops, recv, pend, tgt, log, reg, emitted, closedTops>>

\* a subscription stops on its own Close, or when the stop channel it watches is closed
\* (its publisher is shutting down; for the root subscription: the controller)
StopSignal(s) == req[s] \/ (par[s] = ROOT /\ rootStopped) \/ (par[s] # ROOT /\ life[par[s]] # "run")
SubStop(s) ==
  /\ s \in Subs /\ life[s] = "run" /\ StopSignal(s)
  /\ life' = [life EXCEPT ![s] = "done"]
  /\ UNCHANGED <<nodes, kind, par, depth, mode, req, box, drops, recv, pend, tgt, log, reg, emitted, rootStopped, closedTops>>

\* the publisher sees its parent's Events() closed (after the buffered events)
PubStop(p) ==
  /\ p \in Pubs /\ life[p] = "run" /\ pend[p] = NIL /\ life[par[p]] = "done" /\ box[par[p]] = <<>>
  /\ life' = [life EXCEPT ![p] = "stopping"]
  /\ UNCHANGED <<nodes, kind, par, depth, mode, req, box, drops, recv, pend, tgt, log, reg, emitted, rootStopped, closedTops>>

PubDone(p) ==
  /\ p \in Pubs /\ life[p] = "stopping" /\ \A c \in Kids(p) : life[c] = "done"
  /\ life' = [life EXCEPT ![p] = "done"]
  /\ UNCHANGED <<nodes, kind, par, depth, mode, req, box, drops, recv, pend, tgt, log, reg, emitted, rootStopped, closedTops>>

Sys == \/ SrcEmit
       \/ \E p \in nodes : PubTake(p) \/ PubSent(p) \/ PubStop(p) \/ PubDone(p) \/ SubStop(p)
       \/ \E p, c \in nodes : PubSend(p, c)
Env == \/ \E p \in nodes : Subscribe(p, "healthy") \/ Subscribe(p, "stalled") \/ Clone(p)
       \/ \E n \in nodes : Close(n)
       \/ RootStop
Readers == \E s \in nodes : Consume(s)
Next == Sys \/ Env \/ Readers

\* fairness: every library actor and every healthy consumer; not the environment, not stalled consumers
Fair == /\ WF_vars(SrcEmit)
        /\ \A n \in 1..(MaxNodes + 2) : WF_vars(PubTake(n)) /\ WF_vars(PubSent(n)) /\ WF_vars(PubStop(n)) /\ WF_vars(PubDone(n))
                                         /\ WF_vars(SubStop(n)) /\ WF_vars(Consume(n))
        /\ \A p, c \in 1..(MaxNodes + 2) : WF_vars(PubSend(p, c))
Spec == Init /\ [][Next]_vars /\ Fair

(* ------------------------------------------------------------------ properties *)
TypeOK == /\ \A n \in nodes : Len(box[n]) <= Buf /\ life[n] \in {"run", "stopping", "done"}
          /\ \A n \in nodes : kind[n] = "sub" => life[n] \in {"run", "done"}

Expected(s) == SubSeq(log[par[s]], reg[s] + 1, Len(log[par[s]]))

\* C05: a leaf that lost nothing has received, in order and exactly once, a prefix of what its publisher took after
\* its registration; together with what is still buffered or in flight it is exactly that sequence
Order == \A s \in nodes : (Leaf(s) /\ drops[s] = 0) => IsPrefix(recv[s] \o box[s], Expected(s))
\* all subscribers agree on the relative order: every received sequence is a subsequence of 1..emitted in order
Agree == \A s \in nodes : Leaf(s) => \A i, j \in DOMAIN recv[s] : i < j => recv[s][i] < recv[s][j]
\* C10: a consumer loses events only when its outbox is full; a never-read outbox holds the first Buf events
DropOnlyFull == \A s \in nodes : (Leaf(s) /\ drops[s] > 0) => Len(box[s]) + Len(recv[s]) >= Buf
StalledKeepsFirst == \A s \in nodes : (Leaf(s) /\ mode[s] = "stalled") => IsPrefix(box[s], Expected(s))
\* C11: an actor stops only below a closed node or below a stopped root: never up, never sideways
Downward == \A n \in nodes : life[n] # "run" => (rootStopped \/ \E a \in Anc(n) : a \in closedTops)

\* liveness
AllEmitted == emitted = MaxEvents \/ rootStopped
\* C05/C10: every healthy leaf that stays alive eventually has everything its publisher took, whatever stalled siblings do
CaughtUp(s) == s \notin nodes \/ ~Leaf(s) \/ mode[s] # "healthy" \/ life[s] # "run" \/ drops[s] > 0
               \/ recv[s] \o box[s] = Expected(s)
Delivered == \A s \in 1..(MaxNodes + 2) : []<>CaughtUp(s)
\* C11/C12: closing a node eventually stops everything below it; stopping the root stops everything
Cascaded == \A t \in 1..(MaxNodes + 2) :
              (t \in closedTops) ~> (\A n \in nodes : t \in Anc(n) => life[n] = "done")
Terminates == rootStopped ~> (\A n \in nodes : life[n] = "done")
\* C10: nothing blocks the source: every event is eventually emitted (unless the root stops)
SourceNeverBlocked == <>AllEmitted
=============================================================================
