------------------------------ MODULE ModeSMon ------------------------------
(***************************************************************************)
(* Spec -> code direction for the monitor (C16): TLC enumerates every      *)
(* order of four stimuli                                                    *)
(*   SR  the monitored publisher becomes ready                              *)
(*   PB  one more event is published                                        *)
(*   SD  the monitor is closed (its subscription shuts down)                *)
(*   RL  the handler callback that is currently running returns            *)
(* up to length MaxLen, runs the monitor of Monitor.tla (MInit, MEarlyStop, *)
(* MTake, MStop; every callback blocks until the driver releases it) to     *)
(* completion after each stimulus, and prints for every order every         *)
(* possible history of what is observable at the quiescent points: the      *)
(* callbacks entered so far (0 = OnInitialize, n = the n-th event), whether *)
(* one is running, whether Done() is closed.  The select of the monitor     *)
(* loop is the only choice: with buffered events AND a closed subscription  *)
(* both cases are ready and Go picks either, so an order can have several   *)
(* histories.  The harness (`modesmon`) replays every order on the real     *)
(* monitor over a driver-controlled subscription and publisher, with a      *)
(* quiescence barrier after each stimulus; trace/ModeSMonRecords.tla        *)
(* requires the observed history to be one of the predicted ones.           *)
(***************************************************************************)
EXTENDS Integers, Sequences, FiniteSets, TLC, Json

CONSTANTS MaxLen,
          NoUpdateCb   \* TRUE: the handler was built without an update callback (HandlerBuilder without OnUpdate):
                       \* published events (all updates here) are taken by the monitor and cause no callback at all

VARIABLES stim, hist, rdy, subdone, box, published, phase, cblog, mdone
vars == <<stim, hist, rdy, subdone, box, published, phase, cblog, mdone>>

Init == /\ stim = <<>> /\ hist = <<>> /\ rdy = FALSE /\ subdone = FALSE /\ box = <<>> /\ published = 0
        /\ phase = "wait" /\ cblog = <<>> /\ mdone = FALSE

(* ---- the monitor goroutine (run to completion between stimuli); a callback blocks until RL ---- *)
MInit      == /\ phase = "wait" /\ rdy /\ cblog' = Append(cblog, 0) /\ phase' = "cb"
              /\ UNCHANGED <<stim, hist, rdy, subdone, box, published, mdone>>
MEarlyStop == /\ phase = "wait" /\ subdone /\ phase' = "done" /\ mdone' = TRUE
              /\ UNCHANGED <<stim, hist, rdy, subdone, box, published, cblog>>
MTake      == /\ phase = "loop" /\ box # <<>> /\ box' = Tail(box)
              /\ IF NoUpdateCb THEN UNCHANGED <<cblog, phase>>
                               ELSE cblog' = Append(cblog, Head(box)) /\ phase' = "cb"
              /\ UNCHANGED <<stim, hist, rdy, subdone, published, mdone>>
MStop      == /\ phase = "loop" /\ subdone /\ phase' = "done" /\ mdone' = TRUE
              /\ UNCHANGED <<stim, hist, rdy, subdone, box, published, cblog>>
Internal == MInit \/ MEarlyStop \/ MTake \/ MStop
Quiet == ~ENABLED Internal

Obs == [cb |-> cblog, active |-> phase = "cb", done |-> mdone]

(* ---- stimuli ---- *)
StSR == rdy' = TRUE /\ UNCHANGED <<subdone, box, published, phase>>
\* an event reaches the monitor's subscription only while it is ready and running
StPB == IF rdy /\ ~subdone THEN published' = published + 1 /\ box' = Append(box, published + 1) /\ UNCHANGED <<rdy, subdone, phase>>
        ELSE UNCHANGED <<rdy, subdone, box, published, phase>>
StSD == subdone' = TRUE /\ UNCHANGED <<rdy, box, published, phase>>
StRL == phase' = (IF phase = "cb" THEN "loop" ELSE phase) /\ UNCHANGED <<rdy, subdone, box, published>>

Stims == {"SR", "PB", "SD", "RL"}
Stimulus(s) ==
  /\ Quiet /\ Len(stim) < MaxLen
  /\ stim' = Append(stim, s)
  /\ hist' = IF stim = <<>> THEN hist ELSE Append(hist, Obs)     \* what was observable after the previous stimulus
  /\ CASE s = "SR" -> StSR [] s = "PB" -> StPB [] s = "SD" -> StSD [] s = "RL" -> StRL
  /\ UNCHANGED <<cblog, mdone>>

Next == Internal \/ \E s \in Stims : Stimulus(s)
Spec == Init /\ [][Next]_vars

\* every quiescent state after a stimulus is one (order, history) pair to replay
Emit == (Quiet /\ stim # <<>>) => PrintT(<<"BEH", ToJson([stim |-> stim, hist |-> Append(hist, Obs)])>>)

\* C16 along the way
InitFirstOnce == cblog # <<>> => (cblog[1] = 0 /\ \A i \in 2..Len(cblog) : cblog[i] # 0)
InOrder == \A i, j \in 2..Len(cblog) : i < j => cblog[i] < cblog[j]
OnlyAfterReady == cblog # <<>> => rdy
NothingAfterDone == [][mdone => cblog' = cblog]_vars
=============================================================================
