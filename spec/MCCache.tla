------------------------------ MODULE MCCache ------------------------------
(***************************************************************************)
(* TLC model of the cache kernel: from every reachable state, every        *)
(* operation of the universe is executed with the ALGORITHM of cache.go    *)
(* (CacheKernel!SyncFold / UpdateAlg) and its result is checked against    *)
(* the REFERENCE semantics of C01 / C02.  A failed check stops TLC.        *)
(***************************************************************************)
EXTENDS CacheKernel, TLC

CONSTANTS Versions,   \* set of versions (integers, may include NN, 0, negative)
          MaxList,    \* maximal list length
          StrictDup   \* TRUE: require the reference also for lists with duplicate keys (known finding D7 refutes it)

VersionsQuick == {NN, -1, 0, 1, 2}
VersionsFull == {NN, -1, 0, 1, 2, 3, 4, 5}

VARIABLES items, filter
vars == <<items, filter>>

Objects == {Obj(k, v, l) : k \in Keys, v \in Versions, l \in Labels}
Lists == UNION {[1..n -> Objects] : n \in 0..MaxList}

NoRegress(pre, post) ==
  \A k \in Keys : (pre[k].p /\ post[k].p /\ pre[k] # post[k]) => post[k].v > pre[k].v

SyncChecks(pre, f, list, r) ==
  /\ FilterInv(r.it, f)
  /\ NoRegress(pre, r.it)
  /\ EventsOK(pre, r.it, r.ev)
  /\ (StrictDup \/ ~HasDupKey(list)) => RefSyncOK(pre, f, list, r.it)
  \* weaker guarantees that hold even with duplicate keys
  /\ \A k \in Keys : NumOf(list, k) = <<>> => ~r.it[k].p
  /\ \A k \in Keys : r.it[k].p =>
        \/ r.it[k] = pre[k]
        \/ \E i \in DOMAIN list : list[i].k = k /\ r.it[k] = Entry(list[i].v, list[i].l)

UpdChecks(pre, f, et, o, r) ==
  /\ FilterInv(r.it, f)
  /\ NoRegress(pre, r.it)
  /\ EventsOK(pre, r.it, r.ev)
  /\ RefUpdateOK(pre, f, et, o, r.it)

Init == /\ items = [k \in Keys |-> Absent]
        /\ filter \in Filters

DoSync == \E list \in Lists : \E r \in SyncFold(items, filter, list) :
            /\ Assert(SyncChecks(items, filter, list, r), <<"sync", items, filter, list, r>>)
            /\ items' = r.it /\ UNCHANGED filter

DoRefilter == \E f \in Filters : \E list \in Lists : \E r \in SyncFold(items, f, list) :
            \* a refilter may start from items that violate the new filter
            /\ Assert(SyncChecks(items, f, list, r), <<"refilter", items, f, list, r>>)
            /\ items' = r.it /\ filter' = f

DoUpdate == \E et \in {"create", "update", "delete"} : \E o \in Objects :
            LET r == UpdateAlg(items, filter, et, o) IN
            /\ Assert(UpdChecks(items, filter, et, o, r), <<"update", items, filter, et, o, r>>)
            /\ items' = r.it /\ UNCHANGED filter

Next == DoSync \/ DoRefilter \/ DoUpdate
Spec == Init /\ [][Next]_vars

TypeOK == /\ filter \in Filters
          /\ \A k \in Keys : items[k] = Absent \/ (items[k].p /\ items[k].v \in Versions \ {NN} /\ items[k].l \in Labels)
Inv == FilterInv(items, filter)
=============================================================================
