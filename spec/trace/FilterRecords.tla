---------------------------- MODULE FilterRecords ----------------------------
(***************************************************************************)
(* Judge of the records of harness `filters` (C17, C18, C19).              *)
(*  line 1        {"k":"objects","objs":[o...]}                            *)
(*  {"k":"term","id":n,"t":T,"acc":[0/1 per object],"acc2":[...],          *)
(*   "rebuilt_eq":b,"perm_eq":b}                                           *)
(*      the real filter built for term T, Accept() on every object (twice),*)
(*      FiltersEqual(T, T built again) and, for workload filters,          *)
(*      FiltersEqual(T, T with its sources permuted)                       *)
(*  {"k":"eq","i":n,"js":[m...]}                                           *)
(*      every m such that the real FiltersEqual(term n, term m) is true    *)
(* The term lines come first (ids consecutive from 1).                     *)
(***************************************************************************)
EXTENDS Filters, Json, TLC, IOUtils

Recs == ndJsonDeserialize(IOEnv.VT_TRACE)
Objs == Recs[1].objs

\* optional sharding: this run judges the lines l with l % VT_NSHARDS = VT_SHARD
NumOf(str) == CHOOSE n \in 0..256 : ToString(n) = str
NSh == IF "VT_NSHARDS" \in DOMAIN IOEnv THEN NumOf(IOEnv.VT_NSHARDS) ELSE 1
Sh == IF "VT_SHARD" \in DOMAIN IOEnv THEN NumOf(IOEnv.VT_SHARD) ELSE 0
Mine(l) == (l % NSh) = Sh

VARIABLE i
vars == <<i>>
TermOf(n) == Recs[n + 1].t     \* term lines come first, ids are consecutive from 1

AccBits(t) == [j \in DOMAIN Objs |-> IF Accept(t, Objs[j]) THEN 1 ELSE 0]
Differ(t, acc) == {j \in DOMAIN Objs : Defined(t, Objs[j]) /\ acc[j] # (IF Accept(t, Objs[j]) THEN 1 ELSE 0)}

\* D6 (known finding): a deviation confined to replication-controller sources
RECURSIVE HasRC(_)
HasRC(t) ==
  CASE t.op = "pods" -> t.kind = "rc"
    [] t.op = "not" -> HasRC(t.c)
    [] t.op \in {"and", "or"} -> \E k \in DOMAIN t.cs : HasRC(t.cs[k])
    [] OTHER -> FALSE

TermClass(r) ==
  LET bad == Differ(r.t, r.acc) IN
  IF r.acc # r.acc2 THEN "impure"
  ELSE IF bad # {} THEN
       (IF r.t.op = "pods" /\ r.t.kind = "rc" THEN "rc-selection"
        ELSE IF r.t.op \in {"pods", "services", "node", "involved", "selmatch"} THEN "workload-selection"
        ELSE IF HasRC(r.t) THEN "rc-selection"
        ELSE "accept")
  ELSE IF ~HasFn(r.t) /\ ~r.rebuilt_eq THEN "same-ctor-not-equal"
  ELSE IF ~HasFn(r.t) /\ ~r.perm_eq THEN "permuted-sources-not-equal"
  ELSE "ok"

Equivalent(t, u) == \A j \in DOMAIN Objs : Accept(t, Objs[j]) = Accept(u, Objs[j])

EqClass(r) ==
  LET bad == {m \in {r.js[k] : k \in DOMAIN r.js} : ~Equivalent(TermOf(r.i), TermOf(m))} IN
  IF bad = {} THEN "ok"
  \* a replication-controller term means something else in the code than in the reference (D6)
  ELSE IF HasRC(TermOf(r.i)) \/ \A m \in bad : HasRC(TermOf(m)) THEN "rc-selection"
  ELSE "equal-but-different"

Init == i = 2

Next == /\ i <= Len(Recs)
        /\ LET r == Recs[i] IN
           IF ~Mine(i) THEN TRUE
           ELSE IF r.k = "term" THEN
              /\ LET c == TermClass(r) IN
                   IF c = "ok" THEN TRUE
                   ELSE PrintT(<<"VERDICT", i, c, [t |-> r.t, differs_on |-> {Objs[j] : j \in Differ(r.t, r.acc)}, rebuilt_eq |-> r.rebuilt_eq, perm_eq |-> r.perm_eq]>>)
              /\ Assert(r.id = i - 1, "term ids must be consecutive")
           ELSE
              /\ LET c == EqClass(r) IN
                   IF c = "ok" THEN TRUE
                   ELSE PrintT(<<"VERDICT", i, c, [t |-> TermOf(r.i), equal_to |-> {TermOf(m) : m \in {x \in {r.js[k] : k \in DOMAIN r.js} : ~Equivalent(TermOf(r.i), TermOf(x))}}]>>)
        /\ i' = i + 1
Spec == Init /\ [][Next]_vars
Done == (i = Len(Recs) + 1) => PrintT(<<"CONSUMED", Len(Recs)>>)
=============================================================================
