----------------------------- MODULE JoinRecords -----------------------------
(***************************************************************************)
(* Judge of the records of harness `join` (C09).                           *)
(*  join.snap    at a quiescence: the current source objects (workload     *)
(*               descriptors), destination objects, the services of the    *)
(*               double join, the join cache ("ns/name"), readiness flags  *)
(*               and the events the join's subscriber received since the   *)
(*               previous snapshot                                         *)
(*  join.closed  after closing a join result: did Close()/Done() complete, *)
(*               goroutine census of the long-lived bases before / after,  *)
(*               do the bases still deliver                                *)
(*  join.srcclosed  the SOURCE base was closed under a live join: the    *)
(*               join must still be alive and following the destination     *)
(*               (spec/JoinLife.tla: CloseHasCause, NeverUp)                 *)
(*  join.end     goroutines left after the bases were shut down            *)
(* The selection rule is Filters!WSelects; for the double join a pod is    *)
(* selected by a service that is a backend of an ingress of its namespace. *)
(***************************************************************************)
EXTENDS Filters, Json, TLC, IOUtils

Recs == ndJsonDeserialize(IOEnv.VT_TRACE)

KeyOf(o) == o.ns \o "/" \o o.name
Backends(ing) == {ing.tmpl[j][2] : j \in DOMAIN ing.tmpl}      \* an ingress descriptor lists its backends as pairs

SelectedServices(ings, svcs) ==
  {s \in Range(svcs) : \E g \in Range(ings) : g.ns = s.ns /\ s.name \in Backends(g)}

Expected(r) ==
  CASE r.kind = "ingress" ->
         {KeyOf(s) : s \in SelectedServices(r.srcs, r.dsts)}
    [] r.kind = "ingresspods" ->
         LET sel == SelectedServices(r.srcs, r.mids) IN
         {KeyOf(p) : p \in {q \in Range(r.dsts) : \E s \in sel : s.ns = q.ns /\ s.sel # <<>> /\ MatchSet(s.sel, q.labels)}}
    [] OTHER ->
         {KeyOf(p) : p \in {q \in Range(r.dsts) : \E w \in Range(r.srcs) : w.ns = q.ns /\ WSelects(r.kind, w, q.labels)}}

\* replay of the subscriber's events on the previous content (set of keys)
RECURSIVE ReplayKeys(_, _)
ReplayKeys(S, evs) ==
  IF evs = <<>> THEN [ok |-> TRUE, S |-> S] ELSE
  LET e == Head(evs) IN
  IF e[1] = "create" THEN (IF e[2] \in S THEN [ok |-> FALSE, S |-> S] ELSE ReplayKeys(S \cup {e[2]}, Tail(evs)))
  ELSE IF e[1] = "delete" THEN (IF e[2] \notin S THEN [ok |-> FALSE, S |-> S] ELSE ReplayKeys(S \ {e[2]}, Tail(evs)))
  ELSE (IF e[2] \notin S THEN [ok |-> FALSE, S |-> S] ELSE ReplayKeys(S, Tail(evs)))

VARIABLES i, prev       \* prev: content of the join at the previous snapshot of the same join instance
vars == <<i, prev>>

SnapClass(r) ==
  LET joined == Range(r.joined)  allReady == r.ready.src /\ r.ready.dst /\ r.ready.mid IN
  IF r.ready.join /\ ~allReady THEN "join-ready-before-sides"
  ELSE IF ~r.quiet THEN ""
  ELSE IF r.listerr THEN "join-list-error"
  ELSE IF allReady /\ ~r.ready.join THEN "join-not-ready"
  ELSE IF ~r.ready.join THEN (IF joined # {} THEN "join-content-before-ready" ELSE "")
  ELSE IF joined # Expected(r) THEN (IF r.kind = "rc" THEN "rc-selection" ELSE "join-selection")
  ELSE IF Len(r.joined) # Cardinality(joined) THEN "join-duplicates"
  ELSE IF r.kind # "ingress" /\ r.prev # "" /\ r.prev # "gated" /\ prev.known /\ Len(r.events) < 50 THEN   \* (a window the subscriber's buffer certainly held)   \* (no subscriber is attached to the services join)
       (LET rp == ReplayKeys(prev.S, r.events) IN IF ~rp.ok \/ rp.S # joined THEN "join-events-not-delta" ELSE "")
  ELSE ""

ClosedClass(r) ==
  IF r.hung THEN "join-close-hangs"
  ELSE IF r.base_done \/ ~r.base_alive THEN "join-close-stops-base"
  ELSE IF r.after > r.before THEN "join-leak"
  ELSE ""

Init == i = 1 /\ prev = [known |-> FALSE, S |-> {}]
Next == /\ i <= Len(Recs)
        /\ LET r == Recs[i] IN
           /\ LET c == CASE r.k = "join.snap" -> SnapClass(r)
                         [] r.k = "join.closed" -> ClosedClass(r)
                         [] r.k = "join.earlyclosed" -> (IF r.hung THEN "join-close-hangs" ELSE "")
                         [] r.k = "join.end" -> (IF r.leak # 0 THEN "join-leak"
                                                 ELSE IF r.late_join \in {"blocked", "alive"} THEN "join-on-stopped-base" ELSE "")
                         [] r.k = "join.halfstopped" -> (IF r.res \in {"blocked", "alive"} THEN "join-on-stopped-base"
                                                         ELSE IF r.after > r.dst_closed THEN "join-leak" ELSE "")
                         [] r.k = "join.srcclosed" -> (IF r.hung \/ r.src_hung THEN "join-close-hangs"         \* JoinLife.tla: CloseHasCause / NeverUp
                                                       ELSE IF r.join_done \/ r.dst_done THEN "join-closed-by-source" ELSE "")
                         [] r.k = "join.error" -> "join-error"
                         [] OTHER -> "" IN
              IF c = "" THEN TRUE ELSE PrintT(<<"VERDICT", i, c, r>>)
           /\ prev' = IF r.k = "join.snap" THEN [known |-> r.quiet /\ r.ready.join /\ ~r.listerr, S |-> Range(r.joined)]
                      ELSE IF r.k \in {"join.closed", "join.earlyclosed", "join.srcclosed"} THEN [known |-> FALSE, S |-> {}] ELSE prev
        /\ i' = i + 1
Spec == Init /\ [][Next]_vars
Done == (i = Len(Recs) + 1) => PrintT(<<"CONSUMED", Len(Recs)>>)
=============================================================================
