----------------------------- MODULE TypedRecords -----------------------------
(***************************************************************************)
(* Judge of the records of harness `typed` (C20).                          *)
(*  typed.snap  the same scenario seen through a typed controller and the  *)
(*              untyped core on one server that also serves an object of   *)
(*              another type: event sequences, cache listings, readiness,  *)
(*              Done, monitor callbacks of both                            *)
(*  typed.req   path and query a typed client sent for List and Watch      *)
(* A typed package must behave exactly like the untyped core restricted to *)
(* its type; its client must address the API resource of its type in the   *)
(* requested namespace (all namespaces when none is given).                *)
(***************************************************************************)
EXTENDS Sequences, FiniteSets, Integers, Json, TLC, IOUtils

Recs == ndJsonDeserialize(IOEnv.VT_TRACE)
Range(s) == {s[j] : j \in DOMAIN s}

\* the REST shape of every typed package: API prefix and resource
Resources == [ pod |-> <<"/api/v1", "pods">>, service |-> <<"/api/v1", "services">>, secret |-> <<"/api/v1", "secrets">>,
               node |-> <<"/api/v1", "nodes">>, event |-> <<"/api/v1", "events">>,
               replicationcontroller |-> <<"/api/v1", "replicationcontrollers">>,
               ingress |-> <<"/apis/networking.k8s.io/v1beta1", "ingresses">>,
               job |-> <<"/apis/batch/v1", "jobs">>,
               daemonset |-> <<"/apis/apps/v1", "daemonsets">>, deployment |-> <<"/apis/apps/v1", "deployments">>,
               replicaset |-> <<"/apis/apps/v1", "replicasets">>, statefulset |-> <<"/apis/apps/v1", "statefulsets">> ]

ExpectedPath(pkg, ns, op) ==
  LET r == Resources[pkg] IN
  r[1] \o (IF op \in {"watch", "watch2"} THEN "/watch" ELSE "") \o (IF ns = "" THEN "" ELSE "/namespaces/" \o ns) \o "/" \o r[2]

ReqClass(r) ==
  IF r.method # "GET" \/ r.path # ExpectedPath(r.pkg, r.ns, r.op) THEN "typed-request-path"
  ELSE IF r.op = "watch" /\ (Range(r.query) # {<<"resourceVersion", "7">>, <<"watch", "true">>} \/ Len(r.query) # 2) THEN "typed-request-query"
  ELSE IF r.op = "watch2" /\ (Range(r.query) # {<<"resourceVersion", "9">>, <<"watch", "true">>} \/ Len(r.query) # 2) THEN "typed-request-query"
  ELSE IF r.op = "list" /\ \E q \in Range(r.query) : q[1] \in {"watch", "labelSelector", "fieldSelector"} THEN "typed-request-query"
  \* the caller asked for everything: whatever paging the client chooses, List returns every object of the resource
  ELSE IF r.op = "list" /\ ~r.listerr /\ r.listn # r.items THEN "typed-list-incomplete"
  ELSE ""

NotForeign(r, key) == key \notin Range(r.foreign)
Own(r, evs) == SelectSeq(evs, LAMBDA e : NotForeign(r, e[2]))
Nilled(r, evs) == [j \in DOMAIN evs |-> IF NotForeign(r, evs[j][2]) THEN evs[j] ELSE <<evs[j][1], "<nil>", "">>]
OwnKeys(r, l) == SelectSeq(l, LAMBDA x : \A f \in Range(r.foreign) : \A n \in 0..40 : x # f \o "@" \o ToString(n))

SnapClass(r) ==
  IF r.tready # r.uready THEN "typed-readiness-differs"
  ELSE IF r.tdone # r.udone THEN "typed-lifecycle-differs"
  ELSE IF r.tlisterr # r.ulisterr THEN "typed-list-error-differs"
  ELSE IF ~r.quiet THEN ""
  ELSE IF r.foreign_get # "absent" THEN "typed-returns-foreign-object"
  ELSE IF \E j \in DOMAIN r.tev : r.tev[j][2] = "<nil>" THEN "typed-nil-event"
  ELSE IF r.tev # Own(r, r.uev) THEN "typed-events-differ"
  ELSE IF r.ctev # Own(r, r.cuev) THEN "typed-clone-events-differ"
  ELSE IF ~r.tlisterr /\ (\E j \in DOMAIN r.tlist : r.tlist[j] = "<nil>") THEN "typed-nil-in-list"
  ELSE IF ~r.tlisterr /\ r.tlist # OwnKeys(r, r.ulist) THEN "typed-cache-differs"
  ELSE IF r.tmon = Own(r, r.umon) THEN ""
  ELSE IF r.tmon = Nilled(r, r.umon) THEN "typed-monitor-nil-callback"
  ELSE "typed-monitor-differs"

\* callback protocol of a typed monitor: initialize first and once, entries and exits alternate (never two at once)
MonClass(r) ==
  LET q == r.seq IN
  IF q = <<>> THEN ""
  ELSE IF q[1] # <<"enter", "init">> THEN "typed-monitor-protocol"
  ELSE IF \E j \in DOMAIN q : (j % 2 = 1 /\ q[j][1] # "enter") \/ (j % 2 = 0 /\ (q[j][1] # "exit" \/ q[j][2] # q[j-1][2])) THEN "typed-monitor-protocol"
  ELSE IF Cardinality({j \in DOMAIN q : q[j] = <<"enter", "init">>}) # 1 THEN "typed-monitor-protocol"
  ELSE IF Len(q) % 2 # 0 THEN "typed-monitor-protocol"
  ELSE ""

\* C10 for the typed layer: the reading subscriber got every published event in order; the one that never read
\* holds exactly the first `buf` of them
OverflowClass(r) ==
  IF ~r.quiet THEN ""
  ELSE IF Len(r.healthy) # r.published THEN "typed-healthy-lost-events"
  ELSE IF r.stalled # SubSeq(r.healthy, 1, r.buf) THEN "typed-stalled-not-first-buffer"
  ELSE ""

\* sigs: scenario seed -> the package that ran it first and the type-independent signature of what it observed.
\* The twelve packages are instances of one template: on the same scenario they observe the same thing.
VARIABLES i, sigs
Init == i = 1 /\ sigs = <<>>
IsSigRec(r) == r.k = "typed.snap" /\ r.tag = "end" /\ r.quiet
Deviates(r) == IsSigRec(r) /\ r.seed \in DOMAIN sigs /\ sigs[r.seed].sig # r.sig
Next == /\ i <= Len(Recs)
        /\ LET r == Recs[i]
               c0 == CASE r.k = "typed.snap" -> SnapClass(r)
                      [] r.k = "typed.req" -> ReqClass(r)
                      [] r.k = "typed.mon" -> MonClass(r)
                      [] r.k = "typed.overflow" -> OverflowClass(r)
                      [] r.k = "typed.req2" -> (IF r.hits = 0 \/ r.listn # r.items THEN "typed-client-crossed" ELSE "")
                      [] r.k = "typed.reqcount" -> "typed-request-count"
                      [] r.k = "typed.end" -> (IF r.leak # 0 THEN "typed-leak" ELSE "")
                      [] r.k = "typed.error" -> "typed-error"
                      [] OTHER -> ""
               c == IF c0 \in {"", "typed-monitor-nil-callback"} /\ Deviates(r) THEN "typed-package-deviates" ELSE c0 IN
           /\ IF c = "" THEN TRUE
              ELSE IF c = "typed-package-deviates" THEN PrintT(<<"VERDICT", i, c, [pkg |-> r.pkg, seed |-> r.seed, sig |-> r.sig, other |-> sigs[r.seed]]>>)
              ELSE PrintT(<<"VERDICT", i, c, r>>)
           /\ sigs' = IF IsSigRec(r) /\ r.seed \notin DOMAIN sigs THEN (r.seed :> [pkg |-> r.pkg, sig |-> r.sig]) @@ sigs ELSE sigs
        /\ i' = i + 1
Spec == Init /\ [][Next]_<<i, sigs>>
Done == (i = Len(Recs) + 1) => PrintT(<<"CONSUMED", Len(Recs)>>)
=============================================================================
