--------------------------- MODULE ModeSMonRecords ---------------------------
(***************************************************************************)
(* Judge of harness `modesmon`: for every stimulus order enumerated by TLC *)
(* from ModeSMon.tla, the history the real monitor showed at the barriers   *)
(* (callbacks entered so far, one running, Done() closed) must be one of   *)
(* the histories the specification allows for that order, and never more   *)
(* than one callback may be running.                                        *)
(***************************************************************************)
EXTENDS Sequences, FiniteSets, Integers, Json, TLC, IOUtils

Recs == ndJsonDeserialize(IOEnv.VT_TRACE)
Range(s) == {s[j] : j \in DOMAIN s}
Proj(h) == [j \in DOMAIN h |-> [cb |-> h[j].cb, active |-> h[j].active, done |-> h[j].done]]

Class(r) ==
  IF r.k = "modesmon.error" THEN "modesmon-error"
  ELSE IF ~r.quiet THEN ""
  ELSE IF \E j \in DOMAIN r.obs : r.obs[j].nactive > 1 THEN "callbacks-overlap"
  ELSE IF Proj(r.obs) \in Range(r.preds) THEN ""
  ELSE IF \E j \in DOMAIN r.obs : \E x \in DOMAIN r.obs[j].cb : r.obs[j].cb[x] = -1 THEN "initialize-not-cache-content"
  \* -2 / -3: OnCreate / OnDelete was called although only updates were published
  ELSE IF \E j \in DOMAIN r.obs : \E x \in DOMAIN r.obs[j].cb : r.obs[j].cb[x] < -1 THEN "callback-not-next-event"
  ELSE IF \E j \in DOMAIN r.obs : r.obs[j].cb # <<>> /\ r.obs[j].cb[1] # 0 THEN "initialize-not-first-or-twice"
  ELSE "monitor-history-not-allowed"

VARIABLE i
Init == i = 1
Next == /\ i <= Len(Recs)
        /\ LET c == Class(Recs[i]) IN IF c = "" THEN TRUE ELSE PrintT(<<"VERDICT", i, c, Recs[i]>>)
        /\ i' = i + 1
Spec == Init /\ [][Next]_i
Done == (i = Len(Recs) + 1) => PrintT(<<"CONSUMED", Len(Recs)>>)
=============================================================================
