---------------------------- MODULE ModeSRecords ----------------------------
(***************************************************************************)
(* Judge of harness `modes`: for every stimulus order enumerated by TLC    *)
(* from ModeS.tla, what the real filterSubscription showed after the last  *)
(* stimulus (does it exist, is Ready() closed, its cache listing, the      *)
(* events emitted in the last window) must be what the specification       *)
(* predicted.  The order of events inside one refilter batch is free.      *)
(***************************************************************************)
EXTENDS Sequences, FiniteSets, Integers, Json, TLC, IOUtils

Recs == ndJsonDeserialize(IOEnv.VT_TRACE)
Range(s) == {s[j] : j \in DOMAIN s}

Class(r) ==
  IF ~r.quiet THEN ""
  ELSE IF r.obs.exists # r.pred.exists THEN "modes-exists"
  ELSE IF r.obs.ready /\ ~r.pred.ready THEN "ready-too-early"
  ELSE IF ~r.obs.ready /\ r.pred.ready THEN "not-ready"
  ELSE IF Range(r.obs.fc) # Range(r.pred.fc) \/ Len(r.obs.fc) # Len(r.pred.fc) THEN "content-differs"
  ELSE IF Range(r.obs.out) # Range(r.pred.out) \/ Len(r.obs.out) # Len(r.pred.out) THEN
       (IF ~r.pred.ready /\ r.obs.out # <<>> THEN "event-before-ready" ELSE "events-differ")
  ELSE ""

VARIABLE i
Init == i = 1
Next == /\ i <= Len(Recs)
        /\ LET c == Class(Recs[i]) IN IF c = "" THEN TRUE ELSE PrintT(<<"VERDICT", i, c, Recs[i]>>)
        /\ i' = i + 1
Spec == Init /\ [][Next]_i
Done == (i = Len(Recs) + 1) => PrintT(<<"CONSUMED", Len(Recs)>>)
=============================================================================
