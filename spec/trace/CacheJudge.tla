----------------------------- MODULE CacheJudge -----------------------------
(***************************************************************************)
(* Classification of one recorded cache transition against the reference   *)
(* semantics of CacheKernel; shared by CacheRecords (independent records)  *)
(* and CacheWalk (histories on one long-lived cache).                      *)
(***************************************************************************)
EXTENDS CacheKernel

E(x) == IF x[1] = 1 THEN Entry(x[2], x[3]) ELSE Absent
It(m) == [k \in Keys |-> E(m[k])]
O(x) == Obj(x[1], x[2], x[3])
Lst(xs) == [i \in DOMAIN xs |-> O(xs[i])]
Evs(xs) == [i \in DOMAIN xs |-> [et |-> xs[i][1], o |-> Obj(xs[i][2], xs[i][3], xs[i][4])]]

NoRegress(pre, post) ==
  \A k \in Keys : (pre[k].p /\ post[k].p /\ pre[k] # post[k]) => post[k].v > pre[k].v

Has(r, f) == f \in DOMAIN r

(***************************************************************************)
(* Signature of known finding D7 (see DESIGN.md section 7): a list names   *)
(* one key more than once, its newest version is rejected by the filter,   *)
(* and an OLDER version that the filter accepts (listed, or already cached) *)
(* is in the cache although a newer one has been seen.  Every other deviation is a violation.       *)
(***************************************************************************)
D7Key(pre, f, k, list, post) ==
  LET Lk == NumOf(list, k) IN
  /\ Len(Lk) >= 2
  /\ post[k].p
  /\ post[k].v < MaxV(Lk)
  /\ \A j \in DOMAIN Lk : Lk[j].v = MaxV(Lk) => ~Accept(f, Lk[j])
  /\ AcceptE(f, k, post[k])
  /\ \/ \E j \in DOMAIN Lk : post[k] = Entry(Lk[j].v, Lk[j].l)
     \/ post[k] = pre[k]

ClassWith(pre, fcur, r) ==
  IF Has(r, "wedge") THEN "wedge"            \* the operation never returned
  ELSE IF Has(r, "intent") THEN "crash"      \* the process died inside the operation
  ELSE IF r.anom # "" THEN "anomaly"         \* error, duplicate/foreign object in List(), state not reached ...
  ELSE
  LET post == It(r.post)  get == It(r.get)  evs == Evs(r.ev)
      f == IF r.op = "refilter" THEN r.nf ELSE fcur IN
  IF post # get THEN "list-get-disagree"
  ELSE IF ~FilterInv(post, f) THEN "filter-inv"
  ELSE IF ~NoRegress(pre, post) THEN "regress"
  ELSE IF r.op \in {"sync", "refilter"} THEN
     LET list == Lst(r.list) IN
     IF \E k \in Keys : NumOf(list, k) = <<>> /\ post[k].p THEN "unlisted-present"
     ELSE IF \E k \in Keys : post[k].p /\ post[k] # pre[k]
                 /\ ~\E i \in DOMAIN list : list[i].k = k /\ post[k] = Entry(list[i].v, list[i].l)
          THEN "invented-entry"
     ELSE IF ~RefSyncOK(pre, f, list, post)
          THEN (IF \A k \in Keys : post[k] \in RefSyncKey(pre[k], f, k, list) \/ D7Key(pre, f, k, list, post)
                   THEN "dupkey-older-accepted-survives" ELSE "refsync")
     ELSE IF ~EventsOK(pre, post, evs) THEN "events"
     ELSE "ok"
  ELSE \* create / update / delete
     IF ~RefUpdateOK(pre, f, r.op, O(r.o), post) THEN "refupdate"
     ELSE IF ~EventsOK(pre, post, evs) THEN "events"
     ELSE "ok"

=============================================================================
