---------------------------- MODULE CacheRecords ----------------------------
(***************************************************************************)
(* Judge of transitions recorded from the real cache actor (harness        *)
(* `kernel`).  Each line of the ndjson file named by the environment       *)
(* variable VT_TRACE is one transition                                      *)
(*    (filter, pre-content, operation) -> (List(), Get(k)..., events).     *)
(* One TLC step consumes one line; a line that the reference semantics of  *)
(* CacheKernel does not allow is reported as                               *)
(*    <<"VERDICT", line, class, record>>                                   *)
(* and the run goes on, so that every class of deviation is seen.          *)
(***************************************************************************)
EXTENDS CacheJudge, Json, TLC, IOUtils

Recs == ndJsonDeserialize(IOEnv.VT_TRACE)

Class(r) == ClassWith(It(r.pre), r.f, r)

VARIABLE i
Init == i = 1
Next == /\ i <= Len(Recs)
        /\ LET c == Class(Recs[i]) IN IF c = "ok" THEN TRUE ELSE PrintT(<<"VERDICT", i, c, Recs[i]>>)
        /\ i' = i + 1
Spec == Init /\ [][Next]_i
Done == (i = Len(Recs) + 1) => PrintT(<<"CONSUMED", Len(Recs)>>)
=============================================================================
