------------------------------ MODULE TreeTrace ------------------------------
(***************************************************************************)
(* Trace specification of the publish/subscribe tree and of the caches in  *)
(* it (Tree.tla's state, driven by recorded lines).  One TLC step consumes *)
(* one line of the ndjson trace named by VT_TRACE; the step is the spec    *)
(* action the line claims to be, applied to the SPEC's state:              *)
(*                                                                         *)
(*   caches   content and filter of every cache actor (CacheKernel)        *)
(*   stages   every subscription / filter subscription: its inbox backlog  *)
(*            `inq` (published to it, not yet taken), the event in hand,   *)
(*            its bounded FIFO outbox `box`, drop count, lifecycle         *)
(*   pubs     every publisher: the stage it reads and its children         *)
(*   fsubs    the readiness state machine of every filter subscription     *)
(*   ctls     controllers (root cache, root subscription, ready flag)      *)
(*   mons     monitors (callback protocol)                                 *)
(*                                                                         *)
(* A line that is not an instance of its action, or whose logged data      *)
(* disagree with what the specification prescribes, is reported as         *)
(*   <<"VERDICT", line, class, detail>>                                    *)
(* and the spec resynchronises on the observation so that the rest of the  *)
(* trace is still checked.  Hooks log after the own state change and       *)
(* before publishing it, so a cause always precedes its effects and no     *)
(* reordering tolerance is needed; buffer-full decisions are judged        *)
(* against the occupancy at the stage's `in` line (DESIGN.md 4.3).         *)
(***************************************************************************)
EXTENDS CacheKernel, Json, TLC, IOUtils

Recs == ndJsonDeserialize(IOEnv.VT_TRACE)

VARIABLES i, buf, caches, stages, pubs, fsubs, ctls, mons, pend, net
vars == <<i, buf, caches, stages, pubs, fsubs, ctls, mons, pend, net>>

R == Recs[i]
A == R.a
X(n) == R.x[n]

NoEv == <<>>
EmptyItems == [k \in Keys |-> Absent]
ItemsOf(list) == [k \in Keys |-> IF \E j \in DOMAIN list : list[j].k = k
                                   THEN LET o == list[CHOOSE j \in DOMAIN list : list[j].k = k] IN Entry(o.v, o.l)
                                   ELSE Absent]
ListOK(list) == /\ \A j \in DOMAIN list : list[j].k \in Keys
                /\ \A j, m \in DOMAIN list : j # m => list[j].k # list[m].k
Filtered(it, f) == [k \in Keys |-> IF it[k].p /\ AcceptE(f, k, it[k]) THEN it[k] ELSE Absent]
KnownEv(ev) == ev.o.k \in Keys
KnownEvs(evs) == \A j \in DOMAIN evs : KnownEv(evs[j])
KnownList(l) == \A j \in DOMAIN l : l[j].k \in Keys

Report(cls, detail) == IF cls = "" THEN TRUE ELSE PrintT(<<"VERDICT", i, cls, detail>>)
First(cs) == IF \E j \in DOMAIN cs : cs[j] # "" THEN cs[CHOOSE j \in DOMAIN cs : cs[j] # "" /\ \A m \in 1..(j-1) : cs[m] = ""] ELSE ""

SameMeaning(f, g) == \A k \in Keys, l \in Labels : AcceptKL(f, k, l) = AcceptKL(g, k, l)

(* ------------------------------------------------------------------ stages *)
NewStage(kind, cache) == [kind |-> kind, cache |-> cache, box |-> <<>>, hand |-> <<>>, full |-> FALSE,
                          inq |-> <<>>, fed |-> FALSE, feeder |-> "", stopping |-> FALSE, closed |-> FALSE,
                          dropped |-> 0, taken |-> 0]
IsStage(s) == s \in DOMAIN stages
BoxR(s) == stages[s].box \o stages[s].hand           \* lazy enqueue of the event in hand

\* producer side: event e is now in hand at stage s
StIn(s, e) == [stages EXCEPT ![s].box = BoxR(s), ![s].hand = <<e>>, ![s].full = (Len(BoxR(s)) >= buf),
                             ![s].inq = IF stages[s].inq # <<>> THEN Tail(stages[s].inq) ELSE <<>>]
InClass(s, e) == IF stages[s].fed /\ (stages[s].inq = <<>> \/ Head(stages[s].inq) # e) THEN "order-in" ELSE ""
\* fsub output side (no inq)
StOut(s, e) == [stages EXCEPT ![s].box = BoxR(s), ![s].hand = <<e>>, ![s].full = (Len(BoxR(s)) >= buf)]
StDrop(s) == [stages EXCEPT ![s].hand = <<>>, ![s].dropped = @ + 1]
DropClass(s, e) == IF stages[s].hand # <<e>> THEN "drop-unknown" ELSE IF ~stages[s].full THEN "drop-not-full" ELSE ""
\* consumer side: e taken from the head of stage s
DropFirst(q, e) == IF \E j \in DOMAIN q : q[j] = e
                       THEN LET j == CHOOSE j \in DOMAIN q : q[j] = e /\ \A m \in 1..(j-1) : q[m] # e
                            IN SubSeq(q, 1, j-1) \o SubSeq(q, j+1, Len(q))
                       ELSE q
DeqClass(s, e) == IF ~IsStage(s) THEN "deq-unknown-stage"
                  ELSE IF BoxR(s) = <<>> THEN "recv-unexplained"
                  ELSE IF Head(BoxR(s)) # e THEN (IF \E j \in DOMAIN BoxR(s) : BoxR(s)[j] = e THEN "order" ELSE "recv-unexplained")
                  ELSE ""
\* The event in hand stays in hand while older events are taken from the box: whether it was enqueued or
\* dropped is decided before it is logged (a `drop` line may still follow), so it is resolved only when the
\* stage's next `in`, its `drop`, or a take from an empty box says which.
StDeq(s, e) == IF ~IsStage(s) THEN stages
               ELSE IF stages[s].box # <<>> /\ Head(stages[s].box) = e
                    THEN [stages EXCEPT ![s].box = Tail(@), ![s].taken = @ + 1]
               ELSE IF stages[s].box = <<>> /\ stages[s].hand = <<e>>
                    THEN [stages EXCEPT ![s].hand = <<>>, ![s].taken = @ + 1]
               ELSE [stages EXCEPT ![s].box = DropFirst(BoxR(s), e), ![s].hand = <<>>, ![s].taken = @ + 1]

NewBox == [box |-> <<>>, hand |-> <<>>, full |-> FALSE]
BoxOf(b) == b.box \o b.hand
BIn(b, e) == [b EXCEPT !.box = BoxOf(b), !.hand = <<e>>, !.full = (Len(BoxOf(b)) >= buf)]
BDropClass(b, e) == IF b.hand # <<e>> THEN "drop-unknown" ELSE IF ~b.full THEN "drop-not-full" ELSE ""
BDeqClass(b, e) == IF BoxOf(b) = <<>> THEN "recv-unexplained"
                   ELSE IF Head(BoxOf(b)) # e THEN (IF \E j \in DOMAIN BoxOf(b) : BoxOf(b)[j] = e THEN "order" ELSE "recv-unexplained") ELSE ""
BDeq(b, e) == IF b.box # <<>> /\ Head(b.box) = e THEN [b EXCEPT !.box = Tail(@)]
              ELSE IF b.box = <<>> /\ b.hand = <<e>> THEN [b EXCEPT !.hand = <<>>]
              ELSE [b EXCEPT !.box = DropFirst(BoxOf(b), e), !.hand = <<>>]

\* does any drop lie on the path from the root to stage s (then equalities at quiescence do not apply)
RECURSIVE Lossy(_)
Lossy(s) ==
  IF ~IsStage(s) THEN FALSE
  ELSE \/ stages[s].dropped > 0
       \/ (s \in DOMAIN fsubs /\ Lossy(fsubs[s].parent))
       \/ (stages[s].feeder # "" /\ stages[s].feeder \in DOMAIN pubs /\ Lossy(pubs[stages[s].feeder].parent))

\* the object whose Ready() a stage exposes: a filter subscription its own, a subscription its publisher's parent's
RECURSIVE IsReady(_)
IsReady(s) ==
  IF s \in DOMAIN fsubs THEN fsubs[s].ready
  ELSE IF IsStage(s) /\ stages[s].feeder # "" /\ stages[s].feeder \in DOMAIN pubs THEN IsReady(pubs[stages[s].feeder].parent)
  ELSE \E c \in DOMAIN ctls : ctls[c].sub = s /\ ctls[c].ready

\* the cache a stage exposes
CacheOf(s) == IF s \in DOMAIN fsubs THEN fsubs[s].cache ELSE IF IsStage(s) THEN stages[s].cache ELSE ""
StageOfNode(n) == IF n \in DOMAIN ctls THEN ctls[n].sub
                  ELSE IF n \in DOMAIN pubs THEN pubs[n].parent
                  ELSE n

\* structural parent of an actor of the tree ("ROOT" above the root subscription)
Up(y) == IF y \in DOMAIN fsubs THEN fsubs[y].parent
         ELSE IF y \in DOMAIN pubs THEN pubs[y].parent
         ELSE IF IsStage(y) /\ stages[y].feeder # "" THEN stages[y].feeder
         ELSE "ROOT"
RECURSIVE UnderTop(_, _)
UnderTop(y, t) == y = t \/ (Up(y) # "ROOT" /\ UnderTop(Up(y), t))
\* the subscription at the top of the node that the public object `n` belongs to (Close() of any part closes it)
RECURSIVE NodeTop(_)
NodeTop(n) == IF n \in DOMAIN pubs THEN NodeTop(pubs[n].parent)
              ELSE IF n \in DOMAIN fsubs THEN NodeTop(fsubs[n].parent)
              ELSE n
MayStop(y) == pend.closedAll \/ \E t \in pend.closedTops : UnderTop(y, t)
StopClass(y) == IF MayStop(y) THEN "" ELSE "stopped-outside-closed-subtree"
SetConsumer(s, c) == [pend EXCEPT !.consumer = (s :> c) @@ @]
ConsumerOf(s) == IF s \in DOMAIN pend.consumer THEN pend.consumer[s] ELSE ""

(* ------------------------------------------------------------------ caches *)
NewCache(f) == [f |-> f, it |-> EmptyItems, ev |-> <<>>, lists |-> <<>>, nlist |-> 0, when |-> <<>>, mark |-> 0]
Remember(ls, l) == IF Len(ls) >= 32 THEN Tail(ls) \o <<l>> ELSE ls \o <<l>>
RecentLists(c) == {caches[c].lists[j] : j \in DOMAIN caches[c].lists}

\* readers in flight on cache c see every content the cache passes through until they return (C15)
AddSeen(c, it) == [pend EXCEPT !.rd = [r \in DOMAIN @ |-> IF @[r].cache = c THEN [@[r] EXCEPT !.seen = @ \cup {it}] ELSE @[r]],
                               !.wr = [w \in DOMAIN @ |-> IF @[w].cache = c THEN [@[w] EXCEPT !.n = @ + 1] ELSE @[w]]]

SyncClass(c, list, evs) ==
  IF ~KnownList(list) \/ ~KnownEvs(evs) THEN "foreign-object"
  ELSE LET pre == caches[c].it  f == caches[c].f  rp == Replay(pre, evs) IN
       IF ~rp.ok THEN "events"
       ELSE IF ~EventsOK(pre, rp.it, evs) THEN "events"
       ELSE IF ~FilterInv(rp.it, f) THEN "filter-inv"
       ELSE IF ~RefSyncOK(pre, f, list, rp.it) THEN (IF HasDupKey(list) THEN "dupkey" ELSE "refsync")
       ELSE ""
UpdClass(c, ev, evs) ==
  IF ~KnownEv(ev) \/ ~KnownEvs(evs) THEN "foreign-object"
  ELSE LET pre == caches[c].it  f == caches[c].f  rp == Replay(pre, evs) IN
       IF ~rp.ok THEN "events"
       ELSE IF ~EventsOK(pre, rp.it, evs) THEN "events"
       ELSE IF ~FilterInv(rp.it, f) THEN "filter-inv"
       ELSE IF ~RefUpdateOK(pre, f, ev.et, ev.o, rp.it) THEN "refupdate"
       ELSE ""
After(c, evs) == IF KnownEvs(evs) THEN Replay(caches[c].it, evs).it ELSE caches[c].it

(* ------------------------------------------------------------------ actions *)
Skip == UNCHANGED <<buf, caches, stages, pubs, fsubs, ctls, mons, pend, net>>

NetInit == [lists |-> <<>>, consumed |-> 0, wat |-> <<>>, sess |-> <<>>, expectStop |-> FALSE, failDelivered |-> FALSE, firstFailed |-> FALSE, period |-> 0, tDelivered |-> -1, tConsumed |-> -1, variant |-> "", maxrv |-> 0, stale |-> FALSE]

EvBegin == /\ buf' = R.buf
           /\ caches' = <<>> /\ stages' = <<>> /\ pubs' = <<>> /\ fsubs' = <<>> /\ ctls' = <<>> /\ mons' = <<>>
           /\ pend' = [mon |-> "", monmode |-> "", consumer |-> <<>>, closedTops |-> {}, closedAll |-> FALSE, srv |-> <<>>, rd |-> <<>>, kept |-> <<>>, wanted |-> <<>>, wr |-> <<>>, suspects |-> {}]
           /\ net' = [NetInit EXCEPT !.period = IF "period_us" \in DOMAIN R THEN R.period_us ELSE 0, !.variant = R.variant]

EvCacheNew == /\ Report(IF X(1) \notin Filters THEN "unknown-filter" ELSE "", [cache |-> A, filter |-> X(1)])
              /\ caches' = (A :> NewCache(X(1))) @@ caches
              /\ UNCHANGED <<buf, stages, pubs, fsubs, ctls, mons, pend, net>>

EvCacheFilter == /\ Report(IF X(1) \notin Filters THEN "unknown-filter" ELSE "", [cache |-> A, filter |-> X(1)])
                 /\ caches' = [caches EXCEPT ![A].f = X(1)]
                 /\ UNCHANGED <<buf, stages, pubs, fsubs, ctls, mons, pend, net>>

EvCacheSync == /\ Report(SyncClass(A, X(1), X(2)), [cache |-> A, pre |-> caches[A].it, filter |-> caches[A].f, list |-> X(1), events |-> X(2)])
               /\ caches' = [caches EXCEPT ![A].it = After(A, X(2)), ![A].ev = X(2)]
               /\ pend' = AddSeen(A, After(A, X(2)))
               /\ UNCHANGED <<buf, stages, pubs, fsubs, ctls, mons, net>>

EvCacheUpdate == /\ Report(UpdClass(A, X(1), X(2)), [cache |-> A, pre |-> caches[A].it, filter |-> caches[A].f, event |-> X(1), events |-> X(2)])
                 /\ caches' = [caches EXCEPT ![A].it = After(A, X(2)), ![A].ev = X(2)]
                 /\ pend' = AddSeen(A, After(A, X(2)))
                 /\ UNCHANGED <<buf, stages, pubs, fsubs, ctls, mons, net>>

EvCacheList == /\ Report(IF ~KnownList(X(1)) THEN "foreign-object"
                         ELSE IF ~ListOK(X(1)) \/ ItemsOf(X(1)) # caches[A].it THEN "list-not-snapshot" ELSE "",
                         [cache |-> A, spec |-> caches[A].it, listed |-> X(1)])
               /\ caches' = [caches EXCEPT ![A].lists = Remember(@, IF KnownList(X(1)) THEN ItemsOf(X(1)) ELSE caches[A].it),
                                           ![A].when = Remember(@, caches[A].nlist + 1), ![A].nlist = @ + 1]
               /\ UNCHANGED <<buf, stages, pubs, fsubs, ctls, mons, pend, net>>

EvCtlNew == /\ ctls' = (A :> [cache |-> X(1), sub |-> X(2), pub |-> X(3), watcher |-> X(5), ready |-> FALSE, nsync |-> 0, stopping |-> FALSE, lp |-> FALSE]) @@ ctls
            /\ stages' = [stages EXCEPT ![X(2)].fed = TRUE]
            /\ UNCHANGED <<buf, caches, pubs, fsubs, mons, pend, net>>

\* ctl.synced(version, list, events, initialized): the first sync publishes nothing
EvCtlSynced ==
  LET c == ctls[A]  evs == X(3)
      \* the list must be one the server returned and that was not consumed before (lists are consumed in order)
      cand == {j \in DOMAIN net.lists : j > net.consumed /\ net.lists[j].fail = "" /\ ToString(net.lists[j].rv) = X(1)
                                        /\ KnownList(X(2)) /\ ItemsOf(net.lists[j].list) = ItemsOf(X(2)) /\ Len(net.lists[j].list) = Len(X(2))} IN
  /\ Report(First(<<IF evs # caches[c.cache].ev THEN "ctl-events-differ" ELSE "",
                    IF net.lists # <<>> /\ cand = {} THEN "synced-list-not-from-server" ELSE "",
                    \* results are handed over one at a time and in order: a good result the server returned earlier
                    \* and that was never synced has been abandoned (C03: each completed list is applied)
                    IF cand # {} /\ \E j \in DOMAIN net.lists : j > net.consumed /\ net.lists[j].fail = "" /\ \A m \in cand : j < m
                       THEN "list-not-applied" ELSE "">>),
            [ctl |-> A, events |-> evs, cache_events |-> caches[c.cache].ev, version |-> X(1), list |-> X(2), server_lists |-> net.lists, consumed |-> net.consumed])
  /\ ctls' = [ctls EXCEPT ![A].nsync = @ + 1, ![A].lp = FALSE]
  /\ stages' = IF X(4) THEN [stages EXCEPT ![c.sub].inq = @ \o evs] ELSE stages
  /\ net' = IF cand # {} THEN [net EXCEPT !.consumed = CHOOSE j \in cand : \A m \in cand : j <= m] ELSE net
  /\ UNCHANGED <<buf, caches, pubs, fsubs, mons, pend>>

EvCtlReady == /\ Report(IF ctls[A].nsync = 0 THEN "ready-before-sync" ELSE "", [ctl |-> A])
              /\ ctls' = [ctls EXCEPT ![A].ready = TRUE]
              /\ caches' = [caches EXCEPT ![ctls[A].cache].mark = caches[ctls[A].cache].nlist]   \* listings from here on are "at or after readiness"
              /\ UNCHANGED <<buf, stages, pubs, fsubs, mons, pend, net>>

EvCtlUpdated ==
  LET c == ctls[A]  evs == X(2) IN
  /\ Report(IF evs # caches[c.cache].ev THEN "ctl-events-differ"
            ELSE IF ~c.ready /\ evs # <<>> THEN "publish-before-ready" ELSE "", [ctl |-> A, events |-> evs, cache_events |-> caches[c.cache].ev])
  /\ stages' = [stages EXCEPT ![c.sub].inq = @ \o evs]
  /\ UNCHANGED <<buf, caches, pubs, fsubs, ctls, mons, pend, net>>

EvCtlStopping == /\ Report(First(<<IF ~pend.closedAll /\ ~net.expectStop THEN "stopped-without-cause" ELSE "",
                                   IF net.expectStop /\ ~pend.closedAll /\ X(1) = "" THEN "failure-not-reported" ELSE "">>),
                           [ctl |-> A, err |-> X(1), closed_by_driver |-> pend.closedAll, list_failure_injected |-> net.expectStop])
                 /\ ctls' = [ctls EXCEPT ![A].stopping = TRUE]
                 /\ pend' = [pend EXCEPT !.closedAll = TRUE]
                 /\ UNCHANGED <<buf, caches, stages, pubs, fsubs, mons, net>>

\* The controller hands a batch to its root subscription one event at a time, each a rendezvous: when it moves on
\* (ctl.distributed after a relist, or its next ctl.event / ctl.list) the subscription has taken every event of the
\* previous batches - all but the last receipt are logged by then (receiver-logged rendezvous, as for publishers).
CtlRanAhead(c) == LET s == ctls[c].sub IN IsStage(s) /\ ~stages[s].stopping /\ ~ctls[c].stopping /\ Len(stages[s].inq) > 1
EvCtlDistributed == /\ Report(IF CtlRanAhead(A) THEN "lost-in-fanout" ELSE "", [ctl |-> A, not_yet_taken_by_root_subscription |-> stages[ctls[A].sub].inq])
                    /\ Skip

EvSubNew == /\ stages' = (A :> NewStage("sub", X(1))) @@ stages
            /\ UNCHANGED <<buf, caches, pubs, fsubs, ctls, mons, pend, net>>

EvSubIn == /\ Report(InClass(A, X(1)), [stage |-> A, event |-> X(1), expected |-> stages[A].inq])
           /\ stages' = StIn(A, X(1))
           /\ UNCHANGED <<buf, caches, pubs, fsubs, ctls, mons, pend, net>>

EvSubDrop == /\ Report(DropClass(A, X(1)), [stage |-> A, event |-> X(1), occupancy_at_in |-> Len(stages[A].box), buf |-> buf])
             /\ stages' = StDrop(A)
             /\ UNCHANGED <<buf, caches, pubs, fsubs, ctls, mons, pend, net>>

EvSubStopping == /\ Report(StopClass(A), [stopping |-> A, closed |-> pend.closedTops])
                 /\ stages' = [stages EXCEPT ![A].stopping = TRUE]
                 /\ UNCHANGED <<buf, caches, pubs, fsubs, ctls, mons, pend, net>>

EvPubNew == /\ pubs' = (A :> [parent |-> X(1), kids |-> {}, stopping |-> FALSE]) @@ pubs
            /\ pend' = SetConsumer(X(1), "lib")
            /\ UNCHANGED <<buf, caches, stages, fsubs, ctls, mons, net>>

EvPubSubscribe == /\ pubs' = [pubs EXCEPT ![A].kids = @ \cup {X(1)}]
                  /\ stages' = [stages EXCEPT ![X(1)].feeder = A, ![X(1)].fed = TRUE]
                  /\ UNCHANGED <<buf, caches, fsubs, ctls, mons, pend, net>>

EvPubUnsubscribe == /\ pubs' = [pubs EXCEPT ![A].kids = @ \ {X(1)}]
                    /\ UNCHANGED <<buf, caches, stages, fsubs, ctls, mons, pend, net>>

\* the publisher took e from the stage it reads and now hands it to every child in turn;
\* when it takes the next one every child has taken the previous one (or is shutting down)
EvPubEvent ==
  LET p == pubs[A]  e == X(1)
      \* a rendezvous send is logged by the receiver, who may log it after the sender's next line: at most one
      \* event can be handed over but not yet logged per child
      late == {k \in p.kids : Len(stages[k].inq) > 1 /\ ~stages[k].stopping}
      st1 == StDeq(p.parent, e) IN
  /\ Report(First(<<DeqClass(p.parent, e), IF late # {} THEN "lost-in-fanout" ELSE "">>),
            [pub |-> A, event |-> e, source |-> p.parent, source_box |-> IF IsStage(p.parent) THEN BoxR(p.parent) ELSE <<>>, children_behind |-> late])
  /\ stages' = [s \in DOMAIN st1 |-> IF s \in p.kids THEN [st1[s] EXCEPT !.inq = (IF st1[s].stopping THEN <<>> ELSE @) \o <<e>>] ELSE st1[s]]
  /\ UNCHANGED <<buf, caches, pubs, fsubs, ctls, mons, pend, net>>

EvPubStopping == /\ Report(StopClass(A), [stopping |-> A, closed |-> pend.closedTops])
                 /\ pubs' = [pubs EXCEPT ![A].stopping = TRUE]
                 /\ UNCHANGED <<buf, caches, stages, fsubs, ctls, mons, pend, net>>

\* fsub.new(parent, cache, filter, deferred)
EvFsubNew == /\ fsubs' = (A :> [parent |-> X(1), cache |-> X(2), f |-> X(3), def |-> X(4), pdone |-> FALSE, pend |-> FALSE,
                                 ready |-> FALSE, outq |-> <<>>, supplied |-> FALSE, req |-> X(3)]) @@ fsubs
             /\ stages' = (A :> NewStage("fsub", X(2))) @@ stages
             /\ pend' = SetConsumer(X(1), "lib")
             /\ UNCHANGED <<buf, caches, pubs, ctls, mons, net>>

EvFsubPready ==
  LET fs == fsubs[A] IN
  /\ Report(First(<<IF ~IsReady(fs.parent) THEN "parent-not-ready" ELSE "",
                    IF X(1) # fs.pend THEN "flag-mismatch" ELSE "">>), [fsub |-> A, spec |-> fs, logged_pending |-> X(1)])
  /\ fsubs' = [fsubs EXCEPT ![A].pdone = TRUE]
  /\ UNCHANGED <<buf, caches, stages, pubs, ctls, mons, pend, net>>

ParentCache(fsname) == CacheOf(fsubs[fsname].parent)

\* fsub.synced(list): the private cache was synchronised with a listing of the parent cache
EvFsubSynced ==
  LET fs == fsubs[A]  l == X(1) IN
  /\ Report(IF ~KnownList(l) THEN "foreign-object"
            ELSE IF ItemsOf(l) \notin RecentLists(ParentCache(A)) THEN "sync-list-not-parent-listing" ELSE "",
            [fsub |-> A, list |-> l, parent_cache |-> ParentCache(A)])
  /\ UNCHANGED <<buf, caches, stages, pubs, fsubs, ctls, mons, pend, net>>

\* fsub.ready: allowed only when the parent is ready, a filter has been supplied if deferred, and the
\* private cache holds the filtered parent content (w.r.t. a recent listing or the parent's content now)
EvFsubReady ==
  LET fs == fsubs[A]  pc == ParentCache(A)
      ok == \E L \in RecentLists(pc) \cup {caches[pc].it} : caches[fs.cache].it = Filtered(L, caches[fs.cache].f) IN
  /\ Report(First(<<IF fs.ready THEN "ready-twice" ELSE "",
                    IF ~fs.pdone \/ ~IsReady(fs.parent) THEN "ready-before-parent" ELSE "",
                    IF fs.def /\ ~fs.supplied THEN "deferred-ready-without-filter" ELSE "",
                    \* the filter in force at readiness is the one last supplied through Refilter()
                    IF fs.supplied /\ ~SameMeaning(caches[fs.cache].f, fs.req) THEN "ready-with-wrong-filter" ELSE "",
                    IF ~ok THEN "ready-unsynced" ELSE "">>),
            [fsub |-> A, spec |-> fs, cache |-> caches[fs.cache].it, filter |-> caches[fs.cache].f, parent |-> caches[pc].it])
  /\ fsubs' = [fsubs EXCEPT ![A].ready = TRUE]
  /\ caches' = [caches EXCEPT ![fs.cache].mark = caches[fs.cache].nlist]
  /\ UNCHANGED <<buf, stages, pubs, ctls, mons, pend, net>>


\* fsub.refilter(filter, isNew, parentNotReadyYet, ready, pending)
EvFsubRefilter ==
  LET fs == fsubs[A] IN
  /\ Report(First(<<IF X(3) # ~fs.pdone \/ X(4) # fs.ready \/ X(5) # fs.pend THEN "flag-mismatch" ELSE "",
                    IF ~X(2) /\ ~SameMeaning(fs.f, X(1)) THEN "equal-filters-differ" ELSE "">>),
            [fsub |-> A, spec |-> fs, logged |-> R.x])
  /\ fsubs' = [fsubs EXCEPT ![A].supplied = TRUE, ![A].req = X(1),
                            ![A].pend = IF ~fs.pdone THEN TRUE ELSE @,
                            ![A].f = IF X(2) THEN X(1) ELSE @]
  /\ UNCHANGED <<buf, caches, stages, pubs, ctls, mons, pend, net>>

\* fsub.refiltered(list, events): list is "" (nil) on the not-yet-ready path
EvFsubRefiltered ==
  LET fs == fsubs[A]  l == X(1)  evs == X(2)  nil == ~fs.pdone IN
  /\ Report(IF nil THEN ""
            ELSE IF ~KnownList(l) THEN "foreign-object"
            ELSE IF ItemsOf(l) \notin RecentLists(ParentCache(A)) THEN "sync-list-not-parent-listing"
            ELSE IF evs # caches[fs.cache].ev THEN "fsub-events-differ" ELSE "",
            [fsub |-> A, list |-> l, events |-> evs])
  /\ fsubs' = [fsubs EXCEPT ![A].outq = IF ~nil /\ fs.ready THEN evs ELSE <<>>]
  /\ UNCHANGED <<buf, caches, stages, pubs, ctls, mons, pend, net>>

\* fsub.in(event, ok, ready): taken from the parent stage
EvFsubIn ==
  LET fs == fsubs[A]  e == X(1) IN
  IF ~X(2) THEN \* parent's Events() closed
     /\ Report(IF IsStage(fs.parent) /\ BoxR(fs.parent) # <<>> THEN "closed-before-drained" ELSE "", [fsub |-> A, parent_box |-> BoxR(fs.parent)])
     /\ UNCHANGED <<buf, caches, stages, pubs, fsubs, ctls, mons, pend, net>>
  ELSE
     /\ Report(First(<<DeqClass(fs.parent, e), IF X(3) # fs.ready THEN "flag-mismatch" ELSE "">>),
               [fsub |-> A, event |-> e, source |-> fs.parent, source_box |-> IF IsStage(fs.parent) THEN BoxR(fs.parent) ELSE <<>>, spec_ready |-> fs.ready])
     /\ stages' = StDeq(fs.parent, e)
     /\ UNCHANGED <<buf, caches, pubs, fsubs, ctls, mons, pend, net>>

EvFsubUpdated ==
  LET fs == fsubs[A] IN
  /\ Report(IF X(2) # caches[fs.cache].ev THEN "fsub-events-differ" ELSE "", [fsub |-> A, events |-> X(2), cache_events |-> caches[fs.cache].ev])
  /\ fsubs' = [fsubs EXCEPT ![A].outq = X(2)]
  /\ UNCHANGED <<buf, caches, stages, pubs, ctls, mons, pend, net>>

EvFsubOut ==
  LET fs == fsubs[A]  e == X(1) IN
  /\ Report(First(<<IF fs.outq = <<>> \/ Head(fs.outq) # e THEN "fsub-emits-other" ELSE "",
                    IF ~fs.ready THEN "emit-before-ready" ELSE "">>), [fsub |-> A, event |-> e, expected |-> fs.outq])
  /\ fsubs' = [fsubs EXCEPT ![A].outq = IF @ # <<>> THEN Tail(@) ELSE <<>>]
  /\ stages' = StOut(A, e)
  /\ UNCHANGED <<buf, caches, pubs, ctls, mons, pend, net>>

EvFsubDrop == /\ Report(DropClass(A, X(1)), [stage |-> A, event |-> X(1), occupancy_at_in |-> Len(stages[A].box), buf |-> buf])
              /\ stages' = StDrop(A)
              /\ UNCHANGED <<buf, caches, pubs, fsubs, ctls, mons, pend, net>>

EvFsubStopping == /\ Report(First(<<IF fsubs[A].outq # <<>> THEN "events-not-emitted" ELSE "", StopClass(A)>>), [fsub |-> A, left |-> fsubs[A].outq, closed |-> pend.closedTops])
                  /\ stages' = [stages EXCEPT ![A].stopping = TRUE]
                  /\ UNCHANGED <<buf, caches, pubs, fsubs, ctls, mons, pend, net>>

EvFsubClosed == /\ stages' = [stages EXCEPT ![A].closed = TRUE]
                /\ UNCHANGED <<buf, caches, pubs, fsubs, ctls, mons, pend, net>>

(* ---- harness observations ---- *)

\* recv at a harness consumer of stage A: ev, rdy, cv (version read from the cache right after), cp (present)
EvRecv ==
  LET e == R.ev
      \* C05 speaks of Subscribe/Clone trees: the cache read is the controller's.  (A filtered node's private cache may
      \* transiently hold an older version after a Refilter with parent events in flight - see DESIGN.md, observation O1.)
      \* ... and presumes a server that does not go back in time: after a stale list answer the cache legitimately
      \* drops what the answer does not know and the replayed watch brings it back version by version.
      cacheOlder == /\ ~net.stale
                    /\ \E c \in DOMAIN ctls : ctls[c].cache = CacheOf(A)
                    /\ e.et # "delete" /\ IsNum(e.o.v)
                    /\ ~("drain" \in DOMAIN R)
                    /\ R.cp /\ IsNum(R.cv) /\ R.cv < e.o.v IN
  /\ Report(First(<<DeqClass(A, e), IF ~R.rdy THEN "event-before-ready" ELSE "", IF cacheOlder THEN "cache-older-than-event" ELSE "">>),
            [stage |-> A, event |-> e, box |-> IF IsStage(A) THEN BoxR(A) ELSE <<>>, ready |-> R.rdy, cache_version |-> R.cv])
  /\ stages' = StDeq(A, e)
  /\ UNCHANGED <<buf, caches, pubs, fsubs, ctls, mons, pend, net>>

\* the harness saw Ready() closed and listed the cache at once
EvReady ==
  LET st == StageOfNode(A)  c == IF A \in DOMAIN ctls THEN ctls[A].cache ELSE CacheOf(st) IN
  /\ Report(First(<<IF ~(IF A \in DOMAIN ctls THEN ctls[A].ready ELSE IsReady(st)) THEN "ready-observed-not-declared" ELSE "",
                    \* the cache may have moved on between the read and this line: the listing must be one the cache actor produced
                    IF R.ok /\ KnownList(R.list) /\ c \in DOMAIN caches /\ ItemsOf(R.list) \notin RecentLists(c) THEN "list-not-snapshot" ELSE "">>),
            [node |-> A, stage |-> st, list |-> R.list])
  /\ UNCHANGED <<buf, caches, stages, pubs, fsubs, ctls, mons, pend, net>>

\* snapshots at quiescence: the listing equals the spec content; filtered nodes hold the filtered parent content
EvSnap ==
  LET st == StageOfNode(A)
      c == IF A \in DOMAIN ctls THEN ctls[A].cache ELSE CacheOf(st)
      isF == st \in DOMAIN fsubs
      quiet == R.quiet /\ R.ok /\ ~R.closed IN
  /\ Report(First(<<IF R.ok /\ ~KnownList(R.list) THEN "foreign-object" ELSE "",
                    IF R.ok /\ KnownList(R.list) /\ c \in DOMAIN caches /\ ItemsOf(R.list) # caches[c].it THEN "list-not-snapshot" ELSE "",
                    IF quiet /\ isF /\ fsubs[st].ready /\ ~Lossy(fsubs[st].parent)
                          /\ caches[c].it # Filtered(caches[ParentCache(st)].it, fsubs[st].f) THEN "filter-not-quiescent" ELSE "",
                    IF quiet /\ isF /\ fsubs[st].ready /\ caches[c].f # fsubs[st].f THEN "filter-not-set" ELSE "",
                    IF quiet /\ isF /\ ~stages[st].stopping /\ st \in DOMAIN pend.wanted /\ ~SameMeaning(fsubs[st].f, pend.wanted[st]) THEN "refilter-lost" ELSE "">>),
            [node |-> A, stage |-> st, list |-> R.list, spec |-> IF c \in DOMAIN caches THEN caches[c].it ELSE <<>>,
             parent |-> IF isF THEN caches[ParentCache(st)].it ELSE <<>>, filter |-> IF isF THEN fsubs[st].f ELSE ""])
  /\ UNCHANGED <<buf, caches, stages, pubs, fsubs, ctls, mons, pend, net>>

\* quiescence: nothing may be in flight: every published event was taken by every live child, nothing in hand,
\* and what a healthy harness consumer reads has been read
EvQuiesce ==
  LET behind == {s \in DOMAIN stages : ~stages[s].stopping /\ stages[s].inq # <<>>}
      pending == {f \in DOMAIN fsubs : ~stages[f].stopping /\ fsubs[f].outq # <<>>}
      \* what a library actor or a reading consumer takes from has been taken
      stuck == {s \in DOMAIN stages : ~stages[s].stopping /\ BoxR(s) # <<>> /\ ConsumerOf(s) \in {"lib", "healthy", "slow"}}
      \* everything below a closed node is shutting down
      alive == {s \in DOMAIN stages : ~stages[s].stopping /\ \E t \in pend.closedTops : UnderTop(s, t)}
      \* a monitor whose subscription is ready and running has been initialised (even with an empty listing)
      uninit == {m \in DOMAIN mons : ~mons[m].inited /\ IsStage(mons[m].sub) /\ ~stages[mons[m].sub].stopping /\ IsReady(mons[m].sub)}
      wstuck == {w \in DOMAIN net.wat : BoxOf(net.wat[w]) # <<>> /\ ~pend.closedAll}
                  \cup {sn \in DOMAIN net.sess : net.sess[sn].alive /\ BoxOf(net.sess[sn]) # <<>> /\ ~pend.closedAll
                                                  /\ \E w \in DOMAIN net.wat : net.wat[w].sess = sn}
      \* A deviation at a quiescence line is reported only if it is still there at the next quiescence line
      \* (the driver confirms its final barrier with a second one): what is in flight by accident of scheduling
      \* has moved on by then, what is lost or stuck has not.
      now == {<<"behind", s, ToString(stages[s].inq)>> : s \in behind} \cup {<<"pending", f, ToString(fsubs[f].outq)>> : f \in pending}
             \cup {<<"stuck", s, ToString(Head(BoxR(s)))>> : s \in stuck} \cup {<<"wstuck", w, "">> : w \in wstuck}
             \cup {<<"alive", s, "">> : s \in alive} \cup {<<"uninit", m, "">> : m \in uninit}
             \cup {<<"unapplied", c, "">> : c \in {x \in DOMAIN ctls : ~ctls[x].stopping /\ ctls[x].lp}}
             \cup {<<"unapplied", "list", ToString(j)>> : j \in {x \in DOMAIN net.lists : x > net.consumed /\ net.lists[x].fail = "" /\ ~pend.closedAll
                                                                                        /\ \E c \in DOMAIN ctls : ~ctls[c].stopping}}
      still == now \cap pend.suspects
      Kind(k) == \E x \in still : x[1] = k IN
  /\ Report(IF ~R.ok THEN "not-quiescent"
            ELSE IF Kind("behind") THEN "lost-at-quiescence"
            ELSE IF Kind("pending") THEN "events-not-emitted"
            ELSE IF Kind("stuck") \/ Kind("wstuck") THEN "stuck-at-quiescence"
            ELSE IF Kind("uninit") THEN "monitor-not-initialized"
            ELSE IF Kind("unapplied") THEN "list-not-applied"
            ELSE IF Kind("alive") THEN "cascade-incomplete" ELSE "",
            [still_there_since_the_previous_quiescence |-> still])
  /\ pend' = [pend EXCEPT !.suspects = IF R.ok THEN now ELSE {}]
  /\ UNCHANGED <<buf, caches, stages, pubs, fsubs, ctls, mons, net>>

(* ---- monitors ---- *)
EvCallCreate == /\ pend' = [pend EXCEPT !.mon = IF R.kind = "mon" THEN "monnode" \o ToString(R.node) ELSE @,
                                          !.monmode = IF R.kind = "mon" THEN R.mode ELSE @]
                /\ UNCHANGED <<buf, caches, stages, pubs, fsubs, ctls, mons, net>>

EvMonNew == /\ mons' = (pend.mon :> [sub |-> X(1), inited |-> FALSE, active |-> "", stopping |-> FALSE, n |-> 0]) @@ mons
            /\ pend' = [SetConsumer(X(1), IF pend.monmode \in {"stalled", "pausing"} THEN pend.monmode ELSE "lib") EXCEPT !.mon = ""]
            /\ UNCHANGED <<buf, caches, stages, pubs, fsubs, ctls, net>>

EvCb ==
  IF A \notin DOMAIN mons THEN Report("callback-of-unknown-monitor", [mon |-> A]) /\ Skip ELSE
  LET m == mons[A]  st == m.sub IN
  IF R.ph = "enter" THEN
     IF R.kind = "init" THEN
        /\ Report(First(<<IF m.active # "" THEN "callbacks-overlap" ELSE "",
                          IF m.inited \/ m.n > 0 THEN "initialize-not-first-or-twice" ELSE "",
                          IF ~IsReady(st) THEN "callback-before-ready" ELSE "",
                          IF R.mdone THEN "callback-after-done" ELSE "",
                          \* OnInitialize gets a listing the cache actor produced at or after readiness
                          IF KnownList(R.arg) /\ ~\E j \in DOMAIN caches[CacheOf(st)].lists :
                                 caches[CacheOf(st)].lists[j] = ItemsOf(R.arg) /\ caches[CacheOf(st)].when[j] > caches[CacheOf(st)].mark
                          THEN "initialize-not-cache-content" ELSE "">>),
                  [mon |-> A, arg |-> R.arg])
        /\ mons' = [mons EXCEPT ![A].inited = TRUE, ![A].active = "init", ![A].n = @ + 1]
        /\ UNCHANGED <<buf, caches, stages, pubs, fsubs, ctls, pend, net>>
     ELSE
        LET e == [et |-> R.kind, o |-> R.arg[1]] IN
        /\ Report(First(<<IF m.active # "" THEN "callbacks-overlap" ELSE "",
                          IF ~m.inited THEN "callback-before-initialize" ELSE "",
                          IF R.mdone THEN "callback-after-done" ELSE "",
                          IF DeqClass(st, e) # "" THEN "callback-not-next-event" ELSE "">>),
                  [mon |-> A, callback |-> e, box |-> IF IsStage(st) THEN BoxR(st) ELSE <<>>])
        /\ mons' = [mons EXCEPT ![A].active = R.kind, ![A].n = @ + 1]
        /\ stages' = StDeq(st, e)
        /\ UNCHANGED <<buf, caches, pubs, fsubs, ctls, pend, net>>
  ELSE
     /\ Report(IF m.active # R.kind THEN "callbacks-overlap" ELSE "", [mon |-> A, exit |-> R.kind, active |-> m.active])
     /\ mons' = [mons EXCEPT ![A].active = ""]
     /\ UNCHANGED <<buf, caches, stages, pubs, fsubs, ctls, pend, net>>

\* Refilter() returned nil: the node took the request; at the next quiescence that filter must be in effect
EvRetRefilter ==
  /\ pend' = IF R.err = "" /\ "stage" \in DOMAIN R THEN [pend EXCEPT !.wanted = (StageOfNode(R.stage) :> R.filter) @@ @] ELSE pend
  /\ UNCHANGED <<buf, caches, stages, pubs, fsubs, ctls, mons, net>>

EvRetCreate ==
  /\ pend' = IF R.err = "" /\ R.kind \in {"sub", "fsub", "dsub"} THEN SetConsumer(R.stage, R.mode) ELSE pend
  /\ UNCHANGED <<buf, caches, stages, pubs, fsubs, ctls, mons, net>>

\* the driver closes a node: from now on everything under the node's top subscription may stop
EvCallClose ==
  /\ pend' = IF R.stage \in DOMAIN ctls THEN [pend EXCEPT !.closedAll = TRUE]
             ELSE IF R.stage \in DOMAIN mons THEN [pend EXCEPT !.closedTops = @ \cup {mons[R.stage].sub}]
             ELSE [pend EXCEPT !.closedTops = @ \cup {NodeTop(R.stage)}]
  /\ UNCHANGED <<buf, caches, stages, pubs, fsubs, ctls, mons, net>>

\* server content at quiescence: every running controller's cache is the accepted server content
EvSrvSnapshot ==
  LET it == ItemsOf(R.list)
      behind == {c \in DOMAIN ctls : ~ctls[c].stopping /\ ctls[c].ready /\ caches[ctls[c].cache].it # Filtered(it, caches[ctls[c].cache].f)} IN
  /\ Report(IF R.converged /\ behind # {} THEN "cache-not-current" ELSE "", [server |-> it, caches |-> [c \in behind |-> caches[ctls[c].cache].it]])
  /\ Skip

(* ------------------------------------------------------------------ server, lister, watcher, session *)
\* srv.mut: the server's own history; a list answer that is older than the newest change at the moment it is returned
\* is a stale answer (a slow list whose snapshot was taken at call time, or an API server answering from an old cache)
EvSrvMut == /\ net' = [net EXCEPT !.maxrv = IF R.rv > @ THEN R.rv ELSE @]
            /\ UNCHANGED <<buf, caches, stages, pubs, fsubs, ctls, mons, pend>>

EvSrvListRet ==
  /\ net' = [net EXCEPT !.lists = Append(@, [n |-> R.n, rv |-> R.rv, list |-> R.list, fail |-> R.fail]),
                        !.stale = @ \/ (R.fail = "" /\ R.rv < net.maxrv),
                        !.expectStop = @ \/ (R.fail \notin {"", "ctx"}),
                        !.firstFailed = @ \/ (R.n = 0 /\ R.fail \notin {"", "ctx"})]
  /\ UNCHANGED <<buf, caches, stages, pubs, fsubs, ctls, mons, pend>>

\* one list at a time, and not before about one period after the previous result was taken
EvSrvListCall ==
  /\ Report(First(<<IF R.inflight > 1 THEN "lists-overlap" ELSE "",
                    IF R.n > 0 /\ net.tDelivered >= 0 /\ net.period > 0 /\ (R.t - net.tDelivered) * 10 < net.period * 9 THEN "list-too-early" ELSE "",
                    \* the same from the consumer's side (its line comes a little after the hand-over, hence the wider margin)
                    IF R.n > 0 /\ net.tConsumed >= 0 /\ net.period > 0 /\ (R.t - net.tConsumed) * 10 < net.period * 6 THEN "list-before-consumed-plus-period" ELSE "">>),
            [n |-> R.n, inflight |-> R.inflight, since_result_taken_us |-> R.t - net.tDelivered, period_us |-> net.period])
  /\ net' = [net EXCEPT !.tDelivered = -1, !.tConsumed = -1]
  /\ UNCHANGED <<buf, caches, stages, pubs, fsubs, ctls, mons, pend>>

EvListerDelivered == /\ net' = [net EXCEPT !.tDelivered = R.t]
                     /\ UNCHANGED <<buf, caches, stages, pubs, fsubs, ctls, mons, pend>>

\* ctl.list(type, err): the controller took a list result
\* ctl.list(type, err): the controller took a list result.  C03: each completed list is applied to the cache (ctl.synced) -
\* a good result that is followed by the next one, or by quiescence, without having been synced was ignored
EvCtlList == /\ Report(First(<<IF ctls[A].lp THEN "list-not-applied" ELSE "", IF CtlRanAhead(A) THEN "lost-in-fanout" ELSE "">>), [ctl |-> A])
             /\ net' = [net EXCEPT !.failDelivered = @ \/ (X(2) # "") \/ (X(1) \notin {"*v1.PodList", "*v1.List"}), !.tConsumed = R.t]
             /\ ctls' = [ctls EXCEPT ![A].lp = (X(2) = "" /\ X(1) \in {"*v1.PodList", "*v1.List"})]
             /\ UNCHANGED <<buf, caches, stages, pubs, fsubs, mons, pend>>

EvWatcherNew == /\ net' = [net EXCEPT !.wat = (A :> (NewBox @@ [ver |-> "", sess |-> ""])) @@ @]
                /\ UNCHANGED <<buf, caches, stages, pubs, fsubs, ctls, mons, pend>>

EvSessionNew == /\ net' = [net EXCEPT !.sess = (A :> (NewBox @@ [ver |-> X(1), frame |-> <<>>, alive |-> TRUE])) @@ @]
                /\ UNCHANGED <<buf, caches, stages, pubs, fsubs, ctls, mons, pend>>

\* watcher.reset(version, session): the controller relisted; forwarded-but-unconsumed events are obsolete
EvWatcherReset ==
  /\ Report(IF X(2) \in DOMAIN net.sess /\ net.sess[X(2)].ver # X(1) THEN "resume-version" ELSE "", [watcher |-> A, version |-> X(1)])
  /\ net' = [net EXCEPT !.wat[A] = [box |-> <<>>, hand |-> <<>>, full |-> FALSE, ver |-> X(1), sess |-> X(2)]]
  /\ UNCHANGED <<buf, caches, stages, pubs, fsubs, ctls, mons, pend>>

\* watcher.retry(version, session): a reconnect resumes after the last event received and keeps what was forwarded
EvWatcherRetry ==
  /\ Report(IF X(1) # net.wat[A].ver \/ (X(2) \in DOMAIN net.sess /\ net.sess[X(2)].ver # net.wat[A].ver) THEN "resume-version" ELSE "",
            [watcher |-> A, logged |-> X(1), last_received |-> net.wat[A].ver])
  /\ net' = [net EXCEPT !.wat[A].sess = X(2)]
  /\ UNCHANGED <<buf, caches, stages, pubs, fsubs, ctls, mons, pend>>

EvWatcherSessionDone ==
  /\ Report(IF X(1) # net.wat[A].ver THEN "resume-version" ELSE "", [watcher |-> A, logged |-> X(1), last_received |-> net.wat[A].ver])
  /\ UNCHANGED <<buf, caches, stages, pubs, fsubs, ctls, mons, pend, net>>

\* watcher.in(event, session): taken from the session's buffer, now in hand at the watcher
EvWatcherIn ==
  LET e == X(1)  sn == X(2)  known == sn \in DOMAIN net.sess IN
  /\ Report(IF known THEN BDeqClass(net.sess[sn], e) ELSE "deq-unknown-stage", [watcher |-> A, event |-> e, session |-> sn])
  /\ net' = [net EXCEPT !.wat[A] = [BIn(@, e) EXCEPT !.ver = IF IsNum(e.o.v) THEN ToString(e.o.v) ELSE @],
                        !.sess = IF known THEN [@ EXCEPT ![sn] = BDeq(@, e)] ELSE @]
  /\ UNCHANGED <<buf, caches, stages, pubs, fsubs, ctls, mons, pend>>

EvWatcherDrop ==
  /\ Report(BDropClass(net.wat[A], X(1)), [watcher |-> A, event |-> X(1), occupancy_at_in |-> Len(net.wat[A].box)])
  /\ net' = [net EXCEPT !.wat[A].hand = <<>>]
  /\ UNCHANGED <<buf, caches, stages, pubs, fsubs, ctls, mons, pend>>

\* ctl.event(event): the controller took the next forwarded event
EvCtlEvent ==
  LET w == ctls[A].watcher IN
  /\ Report(First(<<BDeqClass(net.wat[w], X(1)), IF CtlRanAhead(A) THEN "lost-in-fanout" ELSE "">>), [ctl |-> A, event |-> X(1), watcher_box |-> BoxOf(net.wat[w])])
  /\ net' = [net EXCEPT !.wat[w] = BDeq(@, X(1))]
  /\ UNCHANGED <<buf, caches, stages, pubs, fsubs, ctls, mons, pend>>

IsData(f) == f # <<>> /\ f[1].kind = "obj" /\ f[1].wt \in {"ADDED", "MODIFIED", "DELETED"}
EtOf(wt) == CASE wt = "ADDED" -> "create" [] wt = "MODIFIED" -> "update" [] wt = "DELETED" -> "delete" [] OTHER -> "?"

\* session.frame(ok, frame): the previous data frame must have been turned into an event (or dropped for overflow)
EvSessionFrame ==
  /\ Report(IF IsData(net.sess[A].frame) THEN "frame-ignored" ELSE "", [session |-> A, frame |-> net.sess[A].frame])
  /\ net' = [net EXCEPT !.sess[A].frame = IF X(1) THEN <<X(2)>> ELSE <<>>]
  /\ UNCHANGED <<buf, caches, stages, pubs, fsubs, ctls, mons, pend>>

\* session.in(event): only a data frame becomes an event, with the matching type and object
EvSessionIn ==
  LET f == net.sess[A].frame  e == X(1) IN
  /\ Report(IF ~IsData(f) \/ EtOf(f[1].wt) # e.et \/ f[1].o # e.o THEN "frame-mistranslated" ELSE "", [session |-> A, frame |-> f, event |-> e])
  /\ net' = [net EXCEPT !.sess[A] = [BIn(@, e) EXCEPT !.frame = <<>>]]
  /\ UNCHANGED <<buf, caches, stages, pubs, fsubs, ctls, mons, pend>>

EvSessionDrop ==
  /\ Report(BDropClass(net.sess[A], X(1)), [session |-> A, event |-> X(1), occupancy_at_in |-> Len(net.sess[A].box)])
  /\ net' = [net EXCEPT !.sess[A].hand = <<>>]
  /\ UNCHANGED <<buf, caches, stages, pubs, fsubs, ctls, mons, pend>>

EvSessionEnd ==
  /\ Report(IF A \in DOMAIN net.sess /\ IsData(net.sess[A].frame) THEN "frame-ignored" ELSE "", [session |-> A])
  /\ net' = IF A \in DOMAIN net.sess THEN [net EXCEPT !.sess[A].alive = FALSE, !.sess[A].frame = <<>>] ELSE net
  /\ UNCHANGED <<buf, caches, stages, pubs, fsubs, ctls, mons, pend>>

\* the fake server saw Watch(resourceVersion): it is the version of a session the watcher created
EvSrvWatch ==
  /\ Report(IF ~\E sn \in DOMAIN net.sess : net.sess[sn].ver = R.raw THEN "watch-version-unknown" ELSE "", [n |-> R.n, raw |-> R.raw])
  /\ UNCHANGED <<buf, caches, stages, pubs, fsubs, ctls, mons, pend, net>>

\* driver expectations that were not met within their deadline
EvExpect == Report(IF R.met THEN "" ELSE IF R.what = "watch-reestablished" THEN "watch-not-reestablished" ELSE "list-failure-not-fatal", [what |-> R.what]) /\ Skip
EvRelisted == Report(IF ~R.met THEN "relisting-stopped" ELSE "", [n |-> R.n]) /\ Skip
EvLists == Report(First(<<IF R.n < R.want + 1 THEN "relisting-stopped" ELSE "", IF R.maxinflight > 1 THEN "lists-overlap" ELSE "">>),
                  [lists |-> R.n, wanted |-> R.want + 1, elapsed_us |-> R.elapsed_us, budget_us |-> R.budget_us]) /\ Skip
EvRace == Report(IF R.res = "zombie" THEN "racing-call-zombie" ELSE "", [call |-> R.call]) /\ Skip

\* what the controller reports at the end
EvCtlFinal ==
  Report(First(<<IF net.expectStop /\ (~R.done \/ R.err = "" \/ R.how # "none") THEN "list-failure-not-fatal" ELSE "",
                 IF net.firstFailed /\ R.ready THEN "ready-after-failed-first-list" ELSE "",
                 IF ~net.expectStop /\ R.how \in {"close", "close3"} /\ R.err # "" THEN "deliberate-close-reports-failure" ELSE "",
                 IF ~R.done THEN "shutdown-timeout" ELSE "">>),
         [final |-> R, list_failure_injected |-> net.expectStop]) /\ Skip

(* ---- a driver-level cache operation is one atomic step (C15) ---- *)
EvWrCall == /\ pend' = [pend EXCEPT !.wr = (A :> [cache |-> R.cache, n |-> 0]) @@ @]
            /\ UNCHANGED <<buf, caches, stages, pubs, fsubs, ctls, mons, net>>
EvWrRet == /\ Report(IF A \in DOMAIN pend.wr /\ pend.wr[A].n # 1 THEN "operation-not-atomic" ELSE "",
                     [writer |-> A, mutations_between_call_and_return |-> IF A \in DOMAIN pend.wr THEN pend.wr[A].n ELSE -1])
           /\ Skip

(* ---- concurrent cache readers (C15) ---- *)
EvRdCall ==
  /\ pend' = [pend EXCEPT !.rd = (A :> [cache |-> R.cache, op |-> R.op, k |-> R.k, seen |-> {caches[R.cache].it}]) @@ @]
  /\ UNCHANGED <<buf, caches, stages, pubs, fsubs, ctls, mons, net>>

\* the returned value is the cache content at some point between call and return
EvRdRet ==
  LET p == pend.rd[A] IN
  /\ Report(IF R.err THEN "read-error"
            ELSE IF R.op = "list" THEN
                 (IF ~KnownList(R.list) THEN "foreign-object"
                  ELSE IF ~ListOK(R.list) \/ ItemsOf(R.list) \notin p.seen THEN "read-not-linearizable" ELSE "")
            ELSE (IF (IF R.present THEN Entry(R.o.v, R.o.l) ELSE Absent) \notin {st[R.k] : st \in p.seen} THEN "read-not-linearizable" ELSE ""),
            [reader |-> A, returned |-> R, contents_between_call_and_return |-> p.seen])
  /\ pend' = [pend EXCEPT !.kept = IF R.op = "list" /\ R.keep THEN (A :> [n |-> R.n, list |-> R.list]) @@ @ ELSE @]
  /\ UNCHANGED <<buf, caches, stages, pubs, fsubs, ctls, mons, net>>

\* a slice returned earlier still holds what it held: it belongs to the caller
EvRdRecheck ==
  /\ Report(IF A \in DOMAIN pend.kept /\ pend.kept[A].n = R.n /\ pend.kept[A].list # R.list THEN "returned-slice-not-owned" ELSE "",
            [reader |-> A, was |-> IF A \in DOMAIN pend.kept THEN pend.kept[A].list ELSE <<>>, now |-> R.list])
  /\ Skip

(* ---- termination observations ---- *)
EvRunaway == Report("runaway-goroutine", [actor |-> A, last_hook |-> R.last]) /\ Skip
EvBlocked == Report("api-call-blocks", [call |-> R.call, node |-> R.node]) /\ Skip
EvLeak == Report(IF R.n # 0 THEN "goroutine-leak" ELSE "", [n |-> R.n, sample |-> R.sample]) /\ Skip
EvTimeout == Report("shutdown-timeout", [node |-> A, what |-> R.what]) /\ Skip
\* C12: once Done() is closed nothing the controller started is still running - here: no List call of its lister
EvDoneInflight == Report(IF R.lists > 0 THEN "call-in-flight-after-done" ELSE "", [list_calls_still_running |-> R.lists]) /\ Skip
EvRetClose == Report(IF R.timeout THEN "close-hangs" ELSE "", [node |-> R.node]) /\ Skip
EvAfter == Report(IF R.res = "blocked" THEN "call-blocks-after-done"
                  ELSE IF R.res \notin {"ok", "notrunning"} THEN "call-fails-after-done" ELSE "", [node |-> A, call |-> R.call, res |-> R.res]) /\ Skip
EvEvClosed == \* Events() of a node closed: everything buffered was delivered first (the consumer read until close)
  /\ Report(IF IsStage(A) /\ BoxR(A) # <<>> /\ stages[A].kind = "sub" THEN "closed-before-drained" ELSE "", [stage |-> A, box |-> IF IsStage(A) THEN BoxR(A) ELSE <<>>])
  /\ Skip

Dispatch ==
  LET e == R.e IN
  CASE e = "begin"            -> EvBegin
    [] e = "cache.new"        -> EvCacheNew
    [] e = "cache.filter"     -> EvCacheFilter
    [] e = "cache.sync"       -> EvCacheSync
    [] e = "cache.update"     -> EvCacheUpdate
    [] e = "cache.list"       -> EvCacheList
    [] e = "ctl.new"          -> EvCtlNew
    [] e = "ctl.synced"       -> EvCtlSynced
    [] e = "ctl.distributed"  -> EvCtlDistributed
    [] e = "ctl.ready"        -> EvCtlReady
    [] e = "ctl.updated"      -> EvCtlUpdated
    [] e = "ctl.stopping"     -> EvCtlStopping
    [] e = "sub.new"          -> EvSubNew
    [] e = "sub.in"           -> EvSubIn
    [] e = "sub.drop"         -> EvSubDrop
    [] e = "sub.stopping"     -> EvSubStopping
    [] e = "pub.new"          -> EvPubNew
    [] e = "pub.subscribe"    -> EvPubSubscribe
    [] e = "pub.unsubscribe"  -> EvPubUnsubscribe
    [] e = "pub.event"        -> EvPubEvent
    [] e = "pub.stopping"     -> EvPubStopping
    [] e = "fsub.new"         -> EvFsubNew
    [] e = "fsub.pready"      -> EvFsubPready
    [] e = "fsub.synced"      -> EvFsubSynced
    [] e = "fsub.ready"       -> EvFsubReady
    [] e = "fsub.refilter"    -> EvFsubRefilter
    [] e = "fsub.refiltered"  -> EvFsubRefiltered
    [] e = "fsub.in"          -> EvFsubIn
    [] e = "fsub.updated"     -> EvFsubUpdated
    [] e = "fsub.out"         -> EvFsubOut
    [] e = "fsub.drop"        -> EvFsubDrop
    [] e = "fsub.stopping"    -> EvFsubStopping
    [] e = "fsub.closed"      -> EvFsubClosed
    [] e = "recv"             -> EvRecv
    [] e = "ready"            -> EvReady
    [] e = "snap"             -> EvSnap
    [] e = "quiesce"          -> EvQuiesce
    [] e = "call.create"      -> EvCallCreate
    [] e = "mon.new"          -> EvMonNew
    [] e = "ret.create"       -> EvRetCreate
    [] e = "ret.refilter"     -> EvRetRefilter
    [] e = "call.close"       -> EvCallClose
    [] e = "srv.snapshot"     -> EvSrvSnapshot
    [] e = "cb"               -> EvCb
    [] e = "leak"             -> EvLeak
    [] e = "blocked"          -> EvBlocked
    [] e = "runaway"          -> EvRunaway
    [] e = "wr.call"          -> EvWrCall
    [] e = "wr.ret"           -> EvWrRet
    [] e = "rd.call"          -> EvRdCall
    [] e = "rd.ret"           -> EvRdRet
    [] e = "rd.recheck"       -> EvRdRecheck
    [] e = "srv.mut"          -> EvSrvMut
    [] e = "srv.listret"      -> EvSrvListRet
    [] e = "srv.listcall"     -> EvSrvListCall
    [] e = "lister.delivered" -> EvListerDelivered
    [] e = "ctl.list"         -> EvCtlList
    [] e = "watcher.new"      -> EvWatcherNew
    [] e = "session.new"      -> EvSessionNew
    [] e = "watcher.reset"    -> EvWatcherReset
    [] e = "watcher.retry"    -> EvWatcherRetry
    [] e = "watcher.sessiondone" -> EvWatcherSessionDone
    [] e = "watcher.in"       -> EvWatcherIn
    [] e = "watcher.drop"     -> EvWatcherDrop
    [] e = "ctl.event"        -> EvCtlEvent
    [] e = "session.frame"    -> EvSessionFrame
    [] e = "session.in"       -> EvSessionIn
    [] e = "session.drop"     -> EvSessionDrop
    [] e = "session.end"      -> EvSessionEnd
    [] e = "srv.watch"        -> EvSrvWatch
    [] e = "expect"           -> EvExpect
    [] e = "relisted"         -> EvRelisted
    [] e = "lists"            -> EvLists
    [] e = "race"             -> EvRace
    [] e = "ctl.final"        -> EvCtlFinal
    [] e = "timeout"          -> EvTimeout
    [] e = "done.inflight"    -> EvDoneInflight
    [] e = "ret.close"        -> EvRetClose
    [] e = "after"            -> EvAfter
    [] e = "evclosed"         -> EvEvClosed
    [] OTHER                  -> Skip

Init == /\ i = 1 /\ buf = 100
        /\ caches = <<>> /\ stages = <<>> /\ pubs = <<>> /\ fsubs = <<>> /\ ctls = <<>> /\ mons = <<>>
        /\ pend = [mon |-> "", monmode |-> "", consumer |-> <<>>, closedTops |-> {}, closedAll |-> FALSE, srv |-> <<>>, rd |-> <<>>, kept |-> <<>>, wanted |-> <<>>, wr |-> <<>>, suspects |-> {}]
        /\ net = NetInit

Next == /\ i <= Len(Recs)
        /\ Dispatch
        /\ i' = i + 1
Spec == Init /\ [][Next]_vars
Done == (i = Len(Recs) + 1) => PrintT(<<"CONSUMED", Len(Recs)>>)
=============================================================================
