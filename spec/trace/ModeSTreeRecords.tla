-------------------------- MODULE ModeSTreeRecords --------------------------
(***************************************************************************)
(* Judge of harness `modestree`: for every stimulus order enumerated by    *)
(* TLC from ModeSTree.tla, what the real tree showed after every stimulus  *)
(* (per node: kind, Done() closed, events received; constructor calls that *)
(* failed) must be what the specification predicted.                        *)
(***************************************************************************)
EXTENDS Sequences, FiniteSets, Integers, Json, TLC, IOUtils

Recs == ndJsonDeserialize(IOEnv.VT_TRACE)

StepClass(o, p) ==
  IF o = p THEN ""
  ELSE IF o.errs # p.errs \/ Len(o.nodes) # Len(p.nodes) THEN "tree-errs-differ"
  ELSE IF \E j \in DOMAIN o.nodes : o.nodes[j].kind # p.nodes[j].kind THEN "tree-errs-differ"
  ELSE IF \E j \in DOMAIN o.nodes : o.nodes[j].done # p.nodes[j].done THEN "tree-done-differs"
  ELSE "tree-log-differs"

\* A barrier that gave up (something in the library kept running for three seconds without any stimulus) still
\* yields an observation made after three seconds: C11/C12 speak of bounded time, so it is judged like the others.
Class(r) ==
  IF Len(r.obs) # Len(r.pred) THEN "tree-errs-differ"
  ELSE LET bad == {j \in DOMAIN r.obs : StepClass(r.obs[j], r.pred[j]) # ""} IN
       IF bad = {} THEN "" ELSE StepClass(r.obs[CHOOSE j \in bad : \A m \in bad : j <= m], r.pred[CHOOSE j \in bad : \A m \in bad : j <= m])

VARIABLE i
Init == i = 1
Next == /\ i <= Len(Recs)
        /\ LET c == Class(Recs[i]) IN IF c = "" THEN TRUE ELSE PrintT(<<"VERDICT", i, c, Recs[i]>>)
        /\ i' = i + 1
Spec == Init /\ [][Next]_i
Done == (i = Len(Recs) + 1) => PrintT(<<"CONSUMED", Len(Recs)>>)
=============================================================================
