------------------------------ MODULE CacheWalk ------------------------------
(***************************************************************************)
(* Trace specification for histories recorded on long-lived real caches    *)
(* (harness `kwalk`).  A line {"op":"new","f":F} starts a new cache with   *)
(* filter F; every other line is one operation with the observed List(),   *)
(* Get(k) and events.  The spec keeps its own `items`/`filter`: the        *)
(* pre-state of a step is the SPEC state, so a wrong state that the cache  *)
(* reached earlier but that no reading exposed still shows later.  Where   *)
(* the reference leaves a choice (stale delete, equal-version duplicates)  *)
(* the observed outcome, once found allowed, becomes the spec state.       *)
(***************************************************************************)
EXTENDS CacheJudge, Json, TLC, IOUtils

Recs == ndJsonDeserialize(IOEnv.VT_TRACE)

VARIABLES i, items, filter
vars == <<i, items, filter>>

Init == i = 1 /\ items = [k \in Keys |-> Absent] /\ filter = "null"

New == /\ i <= Len(Recs) /\ Recs[i].op = "new"
       /\ items' = [k \in Keys |-> Absent] /\ filter' = Recs[i].f /\ i' = i + 1

Step == /\ i <= Len(Recs) /\ Recs[i].op # "new"
        /\ LET r == Recs[i]  c == ClassWith(items, filter, r) IN
           /\ IF c = "ok" THEN TRUE ELSE PrintT(<<"VERDICT", i, c, [spec_items |-> items, spec_filter |-> filter, rec |-> r]>>)
           \* adopt the observation (resynchronise after a reported deviation)
           /\ items' = IF Has(r, "post") THEN It(r.post) ELSE items
           /\ filter' = IF r.op = "refilter" THEN r.nf ELSE filter
        /\ i' = i + 1

Next == New \/ Step
Spec == Init /\ [][Next]_vars
Done == (i = Len(Recs) + 1) => PrintT(<<"CONSUMED", Len(Recs)>>)
=============================================================================
