------------------------------ MODULE Lifecycle ------------------------------
(***************************************************************************)
(* Design model of the shutdown protocol every kcache actor uses           *)
(* (github.com/boz/go-lifecycle) and of the one place where it went wrong  *)
(* in the pinned code (C12, defect D4).                                     *)
(*                                                                          *)
(* One lifecycle = three channels: stopch (rendezvous: a shutdown REQUEST), *)
(* stoppingch (closed by ShutdownInitiated), stoppedch (closed by           *)
(* ShutdownCompleted).  ShutdownAsync(err) blocks until the owner takes the *)
(* request from stopch or has initiated shutdown; Shutdown(err) also waits  *)
(* for stoppedch.  The owner goroutine takes requests only at its select.   *)
(*                                                                          *)
(* Scenario: a watch session (owner goroutine: Connect, then its select     *)
(* loop), the watcher that resets it (calls session.stop() = ShutdownAsync, *)
(* from its own select loop), the controller that calls watcher.reset()     *)
(* (a rendezvous with the watcher loop) and a user calling Close() =        *)
(* Shutdown on the controller, whose goroutine must be at its select to     *)
(* take the request.  Watch() returns only when its context is cancelled    *)
(* (the premise of C12 allows that).                                        *)
(*   CancelOnStop = TRUE  : stop() cancels the session context first (the   *)
(*                          fix a5a02bb)                                    *)
(*   CancelOnStop = FALSE : pinned code - refuted: Close() never returns    *)
(***************************************************************************)
EXTENDS Integers, TLC

CONSTANT CancelOnStop

VARIABLES sess,      \* session goroutine: "connecting" | "select" | "stopping" | "done"
          sctx,      \* session context cancelled?
          wat,       \* watcher goroutine: "select" | "instop" (inside session.stop()) | "done"
          ctl,       \* controller goroutine: "select" | "inreset" (inside watcher.reset()) | "stopping" | "done"
          closeReq,  \* a user called Close(): "no" | "waiting" (request not yet taken) | "taken" | "returned"
          relist     \* a list result is ready for the controller
vars == <<sess, sctx, wat, ctl, closeReq, relist>>

Init == sess = "connecting" /\ sctx = FALSE /\ wat = "select" /\ ctl = "select" /\ closeReq = "no" /\ relist = FALSE

\* Watch() returns only once its context is cancelled
ConnectReturns == /\ sess = "connecting" /\ sctx
                  /\ sess' = "stopping"                 \* connect error -> ShutdownInitiated
                  /\ UNCHANGED <<sctx, wat, ctl, closeReq, relist>>
SessDone == /\ sess = "stopping" /\ sess' = "done" /\ UNCHANGED <<sctx, wat, ctl, closeReq, relist>>

ListReady == /\ ~relist /\ ctl \in {"select", "inreset"} /\ relist' = TRUE /\ UNCHANGED <<sess, sctx, wat, ctl, closeReq>>

\* controller: case result := <-lister.Result(): ... c.watcher.reset(version)   (rendezvous with the watcher loop)
CtlTakeList == /\ ctl = "select" /\ relist /\ relist' = FALSE /\ ctl' = "inreset"
               /\ UNCHANGED <<sess, sctx, wat, closeReq>>
\* watcher: case vsn := <-w.resetch: ... session.stop()
WatReset == /\ ctl = "inreset" /\ wat = "select"
            /\ ctl' = "select"                          \* reset() returned: the watcher took the value
            /\ wat' = "instop"
            /\ sctx' = IF CancelOnStop THEN TRUE ELSE sctx
            /\ UNCHANGED <<sess, closeReq, relist>>
\* ShutdownAsync returns when the session has initiated shutdown (or takes the request at its select)
StopReturns == /\ wat = "instop" /\ sess \in {"stopping", "done", "select"}
               /\ wat' = "select"
               /\ sess' = IF sess = "select" THEN "stopping" ELSE sess
               /\ UNCHANGED <<sctx, ctl, closeReq, relist>>

UserClose == /\ closeReq = "no" /\ closeReq' = "waiting" /\ UNCHANGED <<sess, sctx, wat, ctl, relist>>
\* the controller takes the shutdown request only at its select
CtlTakeClose == /\ closeReq = "waiting" /\ ctl = "select"
                /\ closeReq' = "taken" /\ ctl' = "stopping"
                /\ sctx' = TRUE                          \* the controller's context/stop channel reaches watcher and session
                /\ UNCHANGED <<sess, wat, relist>>
WatStops == /\ ctl = "stopping" /\ wat = "select" /\ wat' = "done" /\ UNCHANGED <<sess, sctx, ctl, closeReq, relist>>
CtlDone == /\ ctl = "stopping" /\ wat = "done" /\ sess \in {"done"} /\ ctl' = "done" /\ UNCHANGED <<sess, sctx, wat, closeReq, relist>>
CloseReturns == /\ closeReq = "taken" /\ ctl = "done" /\ closeReq' = "returned" /\ UNCHANGED <<sess, sctx, wat, ctl, relist>>

Next == ConnectReturns \/ SessDone \/ ListReady \/ CtlTakeList \/ WatReset \/ StopReturns \/ UserClose \/ CtlTakeClose \/ WatStops \/ CtlDone \/ CloseReturns
Spec == Init /\ [][Next]_vars /\ WF_vars(ConnectReturns) /\ WF_vars(SessDone) /\ WF_vars(CtlTakeList) /\ WF_vars(WatReset) /\ WF_vars(StopReturns)
             /\ SF_vars(CtlTakeClose) /\ WF_vars(WatStops) /\ WF_vars(CtlDone) /\ WF_vars(CloseReturns)

\* C12: Close() returns in bounded time from every reachable state
CloseTerminates == (closeReq = "waiting") ~> (closeReq = "returned")
\* and relisting is never blocked behind the watch path (C03)
ListAlwaysTaken == relist ~> (~relist \/ ctl \in {"stopping", "done"})
\* safety side of C12 (no zombie) and C11 (cascade order), checked as invariants:
TypeOK == /\ sess \in {"connecting", "select", "stopping", "done"} /\ sctx \in BOOLEAN
          /\ wat \in {"select", "instop", "done"} /\ ctl \in {"select", "inreset", "stopping", "done"}
          /\ closeReq \in {"no", "waiting", "taken", "returned"} /\ relist \in BOOLEAN
\* Close() returns only when every goroutine below the controller has ended
NoZombieAfterClose == closeReq = "returned" => (sess = "done" /\ wat = "done" /\ ctl = "done")
\* the controller is Done only after its children; nobody stops before a shutdown was requested
DoneOrder == /\ (ctl = "done" => (wat = "done" /\ sess = "done"))
             /\ (ctl \in {"stopping", "done"} => closeReq \in {"taken", "returned"})
             /\ (wat = "done" => ctl \in {"stopping", "done"})
\* the session context is cancelled only by a reset (with the fix) or by the cascade from the controller
CancelHasCause == sctx => (CancelOnStop \/ closeReq \in {"taken", "returned"})
=============================================================================
