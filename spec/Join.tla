-------------------------------- MODULE Join --------------------------------
(***************************************************************************)
(* Design model of a generated join (join/generated_*.go): the result is a *)
(* CloneForFilter of the destination plus a monitor of the source that      *)
(* calls dst.Refilter(filterFn(source cache)) on initialisation and on      *)
(* every source callback (C09).                                             *)
(*                                                                          *)
(* Sources and destinations are abstract: Sel[s] is the set of destination *)
(* objects source s selects.                                                *)
(*   SrcChange    a source appears / disappears (source cache + event)      *)
(*   MonInit      the source monitor's OnInitialize (source ready)          *)
(*   MonCallback  one source event -> Refilter with the source cache NOW    *)
(*   FRefilter    the filtered clone takes a Refilter request               *)
(*   DstChange    a destination object appears / disappears                 *)
(*   DstReady     the destination becomes ready                             *)
(* Refilter is a rendezvous, so requests reach the clone in call order.     *)
(* Deviation AsyncRefilter = TRUE: the callback issues the Refilter from a  *)
(* new goroutine, so requests can overtake each other.                      *)
(***************************************************************************)
EXTENDS Integers, Sequences, FiniteSets

CONSTANTS Sources, Dests, Sel, MaxChanges, AsyncRefilter

VARIABLES srcCache, srcReady, monInit, monq, reqs, dstCache, dstReady, jfilter, supplied, jready, jcache, nchg
vars == <<srcCache, srcReady, monInit, monq, reqs, dstCache, dstReady, jfilter, supplied, jready, jcache, nchg>>

SelDef == [s \in {"s1", "s2"} |-> IF s = "s1" THEN {"p1", "p2"} ELSE {"p2", "p3"}]

Selected(S, D) == {d \in D : \E s \in S : d \in Sel[s]}

Init == /\ srcCache \in SUBSET Sources /\ srcReady = FALSE /\ monInit = FALSE /\ monq = 0 /\ reqs = <<>>
        /\ dstCache \in SUBSET Dests /\ dstReady = FALSE
        /\ jfilter = {} /\ supplied = FALSE /\ jready = FALSE /\ jcache = {} /\ nchg = 0

SrcReady == /\ ~srcReady /\ srcReady' = TRUE
            /\ UNCHANGED <<srcCache, monInit, monq, reqs, dstCache, dstReady, jfilter, supplied, jready, jcache, nchg>>
SrcChange == /\ nchg < MaxChanges /\ nchg' = nchg + 1
             /\ \E s \in Sources : srcCache' = IF s \in srcCache THEN srcCache \ {s} ELSE srcCache \cup {s}
             /\ monq' = IF srcReady THEN monq + 1 ELSE monq          \* a ready source publishes the event
             /\ UNCHANGED <<srcReady, monInit, reqs, dstCache, dstReady, jfilter, supplied, jready, jcache>>
\* requests in flight: a sequence (call order) - or, with AsyncRefilter, any order
Issue(f) == reqs' = Append(reqs, f)
MonInit == /\ srcReady /\ ~monInit /\ monInit' = TRUE /\ Issue(srcCache)
           /\ UNCHANGED <<srcCache, srcReady, monq, dstCache, dstReady, jfilter, supplied, jready, jcache, nchg>>
MonCallback == /\ monInit /\ monq > 0 /\ monq' = monq - 1 /\ Issue(srcCache)
               /\ (~AsyncRefilter => reqs = <<>>)        \* Refilter blocks the monitor until the clone took the previous one
               /\ UNCHANGED <<srcCache, srcReady, monInit, dstCache, dstReady, jfilter, supplied, jready, jcache, nchg>>
FRefilter == /\ reqs # <<>>
             /\ \E i \in DOMAIN reqs :
                  /\ (~AsyncRefilter => i = 1)
                  /\ jfilter' = reqs[i] /\ supplied' = TRUE
                  /\ reqs' = [j \in 1..(Len(reqs) - 1) |-> IF j < i THEN reqs[j] ELSE reqs[j + 1]]
                  /\ IF dstReady THEN jcache' = Selected(reqs[i], dstCache) /\ jready' = TRUE
                                 ELSE UNCHANGED <<jcache, jready>>
             /\ UNCHANGED <<srcCache, srcReady, monInit, monq, dstCache, dstReady, nchg>>
DstReady == /\ ~dstReady /\ dstReady' = TRUE
            /\ IF supplied THEN jcache' = Selected(jfilter, dstCache) /\ jready' = TRUE ELSE UNCHANGED <<jcache, jready>>
            /\ UNCHANGED <<srcCache, srcReady, monInit, monq, reqs, dstCache, jfilter, supplied, nchg>>
DstChange == /\ nchg < MaxChanges /\ nchg' = nchg + 1
             /\ \E d \in Dests : dstCache' = IF d \in dstCache THEN dstCache \ {d} ELSE dstCache \cup {d}
             /\ jcache' = IF jready THEN Selected(jfilter, dstCache') ELSE jcache
             /\ UNCHANGED <<srcCache, srcReady, monInit, monq, reqs, dstReady, jfilter, supplied, jready>>

Next == SrcReady \/ SrcChange \/ MonInit \/ MonCallback \/ FRefilter \/ DstReady \/ DstChange
Spec == Init /\ [][Next]_vars /\ WF_vars(MonInit) /\ WF_vars(MonCallback) /\ WF_vars(FRefilter) /\ WF_vars(SrcReady) /\ WF_vars(DstReady)

\* once both sides quiesce the join holds exactly the destination objects selected by a current source
Quiescent == (jready /\ monq = 0 /\ reqs = <<>> /\ monInit) => jcache = Selected(srcCache, dstCache)
\* ready only after source and destination are ready
ReadyAfterBoth == jready => (srcReady /\ dstReady)
EmptyBeforeReady == ~jready => jcache = {}
BecomesReady == <>jready
=============================================================================
