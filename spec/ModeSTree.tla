------------------------------ MODULE ModeSTree ------------------------------
(***************************************************************************)
(* Spec -> code direction for the publish/subscribe tree (C05, C11, C12):  *)
(* TLC enumerates every order of eight stimuli                              *)
(*   EM   the root subscription is sent the next event                      *)
(*   SB0  Subscribe() on the root publisher                                 *)
(*   SB1  Subscribe() on the most recent live clone (the root without one)  *)
(*   CL0  Clone() of the root publisher                                     *)
(*   CL1  Clone() of the most recent live clone (the root without one)      *)
(*   CS   Close() of the most recent live node                              *)
(*   CSF  Close() of the oldest live node                                   *)
(*   CR   the root subscription is closed (the controller stops)            *)
(* up to length MaxLen, with the tree run to completion after each one, and *)
(* prints for every order what is observable after every stimulus: for each *)
(* node in creation order its kind, whether Done() is closed and (leaves)   *)
(* the events received so far, plus the number of constructor calls that    *)
(* returned ErrNotRunning.  Run to completion makes this deterministic: an  *)
(* event reaches exactly the leaves that exist, are live and have only live *)
(* ancestors at that moment, in publication order (C05, "every subscription *)
(* time relative to the stream"); a close takes down exactly the subtree    *)
(* (C11); a constructor on a stopped publisher fails (C12).                 *)
(* The harness (`modestree`) replays every order on real publishers and     *)
(* subscriptions with a quiescence barrier after each stimulus, draining    *)
(* every leaf at the barrier; trace/ModeSTreeRecords.tla compares.          *)
(***************************************************************************)
EXTENDS Integers, Sequences, FiniteSets, TLC, Json

CONSTANTS MaxLen

\* nodes: sequence of [kind |-> "sub" | "clone", par |-> index of the parent clone or 0 for the root publisher, dead, log, lazy]
VARIABLES stim, hist, nodes, emitted, rootDead, errs
vars == <<stim, hist, nodes, emitted, rootDead, errs>>

Init == stim = <<>> /\ hist = <<>> /\ nodes = <<>> /\ emitted = 0 /\ rootDead = FALSE /\ errs = 0

Idx == DOMAIN nodes
Live(i) == ~nodes[i].dead
LiveClones == {i \in Idx : nodes[i].kind = "clone" /\ Live(i)}
Max(S) == CHOOSE x \in S : \A y \in S : y <= x
Min(S) == CHOOSE x \in S : \A y \in S : x <= y
LastClone == IF LiveClones = {} THEN 0 ELSE Max(LiveClones)
PubLive(p) == IF p = 0 THEN ~rootDead ELSE Live(p)

RECURSIVE Under(_, _)
Under(i, x) == i = x \/ (nodes[i].par # 0 /\ Under(nodes[i].par, x))      \* i is x or a descendant of x

Create(kind, p, lazy) ==
  IF PubLive(p) THEN nodes' = Append(nodes, [kind |-> kind, par |-> p, dead |-> FALSE, log |-> <<>>, lazy |-> lazy]) /\ UNCHANGED <<emitted, rootDead, errs>>
  ELSE errs' = errs + 1 /\ UNCHANGED <<nodes, emitted, rootDead>>

CloseNode(x) == nodes' = [i \in Idx |-> IF Under(i, x) THEN [nodes[i] EXCEPT !.dead = TRUE] ELSE nodes[i]]

StEM == IF rootDead THEN UNCHANGED <<nodes, emitted, rootDead, errs>>
        ELSE /\ emitted' = emitted + 1
             /\ nodes' = [i \in Idx |-> IF nodes[i].kind = "sub" /\ Live(i) THEN [nodes[i] EXCEPT !.log = Append(@, emitted + 1)] ELSE nodes[i]]
             /\ UNCHANGED <<rootDead, errs>>
StCS(pick) == LET L == {i \in Idx : Live(i)} IN
              IF L = {} THEN UNCHANGED <<nodes, emitted, rootDead, errs>>
              ELSE CloseNode(IF pick = "last" THEN Max(L) ELSE Min(L)) /\ UNCHANGED <<emitted, rootDead, errs>>
StCR == /\ rootDead' = TRUE
        /\ nodes' = [i \in Idx |-> [nodes[i] EXCEPT !.dead = TRUE]]
        /\ UNCHANGED <<emitted, errs>>

\* A leaf made by SB1 is read lazily: its consumer takes nothing until the end of the order, so what it holds is
\* buffered in the subscription when it (or an ancestor) is closed - Done() closes all the same, and the buffered
\* events can still be read afterwards.  Its log is therefore observable at the last stimulus only.
ObsOf(ns, er, final) == [nodes |-> [i \in DOMAIN ns |-> [kind |-> ns[i].kind, done |-> ns[i].dead,
                                                          log |-> IF ns[i].lazy /\ ~final THEN <<>> ELSE ns[i].log]], errs |-> er]

Stims == {"EM", "SB0", "SB1", "CL0", "CL1", "CS", "CSF", "CR"}
Stimulus(s) ==
  /\ Len(stim) < MaxLen
  /\ stim' = Append(stim, s)
  /\ CASE s = "EM" -> StEM
       [] s = "SB0" -> Create("sub", 0, FALSE)
       [] s = "SB1" -> Create("sub", LastClone, TRUE)
       [] s = "CL0" -> Create("clone", 0, FALSE)
       [] s = "CL1" -> Create("clone", LastClone, FALSE)
       [] s = "CS" -> StCS("last")
       [] s = "CSF" -> StCS("first")
       [] s = "CR" -> StCR
  /\ hist' = Append(hist, ObsOf(nodes', errs', Len(stim) + 1 = MaxLen))

Next == \E s \in Stims : Stimulus(s)
Spec == Init /\ [][Next]_vars

Emit == (Len(stim) = MaxLen) => PrintT(<<"BEH", ToJson([stim |-> stim, hist |-> hist])>>)

\* C05 along the way: a leaf's log is a gap-free run of publication numbers; C11: a dead parent has only dead children
LogsAreRuns == \A i \in Idx : \A j \in 1..(Len(nodes[i].log) - 1) : nodes[i].log[j + 1] = nodes[i].log[j] + 1
Downward == \A i \in Idx : (nodes[i].par # 0 /\ nodes[nodes[i].par].dead) => nodes[i].dead
=============================================================================
