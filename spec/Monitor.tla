------------------------------- MODULE Monitor -------------------------------
(***************************************************************************)
(* Design model of a monitor (monitor.go): one goroutine that waits for    *)
(* its subscription to be ready, calls OnInitialize, then one callback per *)
(* event it receives, until the subscription is done (C16).                 *)
(*   SubReady / Publish(e) / SubDone   the subscription (environment)       *)
(*   MInit       first select: case <-sub.Ready()   -> OnInitialize         *)
(*   MEarlyStop  first select: case <-sub.Done()                            *)
(*   MTake       loop select: case ev := <-sub.Events() -> callback         *)
(*   MExit       the handler returns                                        *)
(*   MStop       loop select: case <-sub.Done() / Events() closed           *)
(* In cblog the value 0 stands for OnInitialize, n > 0 for the callback of event n. *)
(* Deviation GoDispatch = TRUE: callbacks are started with `go`.            *)
(***************************************************************************)
EXTENDS Integers, Sequences, FiniteSets

CONSTANTS MaxEvents, BufM, GoDispatch

VARIABLES rdy, subdone, box, published, phase, cblog, active, mdone
vars == <<rdy, subdone, box, published, phase, cblog, active, mdone>>

Init == /\ rdy = FALSE /\ subdone = FALSE /\ box = <<>> /\ published = 0
        /\ phase = "wait" /\ cblog = <<>> /\ active = 0 /\ mdone = FALSE

SubReady == /\ ~rdy /\ ~subdone /\ rdy' = TRUE /\ UNCHANGED <<subdone, box, published, phase, cblog, active, mdone>>
Publish == /\ rdy /\ ~subdone /\ published < MaxEvents /\ published' = published + 1
           /\ box' = IF Len(box) < BufM THEN Append(box, published + 1) ELSE box
           /\ UNCHANGED <<rdy, subdone, phase, cblog, active, mdone>>
SubDone == /\ ~subdone /\ subdone' = TRUE /\ UNCHANGED <<rdy, box, published, phase, cblog, active, mdone>>

MInit == /\ phase = "wait" /\ rdy
         /\ cblog' = Append(cblog, 0) /\ active' = active + 1
         /\ phase' = IF GoDispatch THEN "loop" ELSE "cb"
         /\ UNCHANGED <<rdy, subdone, box, published, mdone>>
MEarlyStop == /\ phase = "wait" /\ subdone /\ phase' = "done" /\ mdone' = TRUE
              /\ UNCHANGED <<rdy, subdone, box, published, cblog, active>>
MTake == /\ phase = "loop" /\ box # <<>>
         /\ cblog' = Append(cblog, Head(box)) /\ box' = Tail(box) /\ active' = active + 1
         /\ phase' = IF GoDispatch THEN "loop" ELSE "cb"
         /\ UNCHANGED <<rdy, subdone, published, mdone>>
MExit == /\ active > 0 /\ (phase = "cb" \/ GoDispatch)
         /\ active' = active - 1 /\ phase' = IF phase = "cb" THEN "loop" ELSE phase
         /\ UNCHANGED <<rdy, subdone, box, published, cblog, mdone>>
MStop == /\ phase = "loop" /\ subdone /\ phase' = "done" /\ mdone' = TRUE
         /\ UNCHANGED <<rdy, subdone, box, published, cblog, active>>

Next == SubReady \/ Publish \/ SubDone \/ MInit \/ MEarlyStop \/ MTake \/ MExit \/ MStop
Spec == Init /\ [][Next]_vars /\ WF_vars(MInit \/ MEarlyStop) /\ WF_vars(MExit) /\ WF_vars(MStop) /\ WF_vars(MTake)

InitFirstOnce == cblog # <<>> => (cblog[1] = 0 /\ \A i \in 2..Len(cblog) : cblog[i] # 0)
Serial == active <= 1
InOrder == \A i, j \in 2..Len(cblog) : i < j => cblog[i] < cblog[j]
OnlyAfterReady == cblog # <<>> => rdy
NothingAfterDone == [][mdone => cblog' = cblog]_vars
StopsWithSub == subdone ~> mdone
=============================================================================
