------------------------------- MODULE Lister -------------------------------
(***************************************************************************)
(* Design model of periodic relisting (lister.go + ticker.go) in discrete  *)
(* time (C13, and the lister/ticker part of C12).                           *)
(*                                                                          *)
(* Time is modelled with countdowns: the remaining ticks of the armed       *)
(* timer, of the list call in flight and of the controller's consumption    *)
(* delay.  `Advance` lets one tick pass and is enabled only while every     *)
(* active countdown is positive, so an expired countdown must be acted      *)
(* upon before time goes on and the state space is finite without a clock.  *)
(*                                                                          *)
(* Go timer states:  armed | firedU (fired, value still in timer.C) |        *)
(*                   firedD (fired and the value was taken by the ticker)   *)
(* Actions (one per select case):                                           *)
(*   Fire       the runtime fires the timer                                 *)
(*   TkTimer    ticker: case <-timer.C        -> has a tick to offer         *)
(*   TkNext     ticker: case nextch <- count  / lister: case <-tickch -> new list *)
(*   LResult    lister: case result = <-runch                               *)
(*   LDeliver   lister: case resultch <- result (the controller takes it),  *)
(*              then calls ticker.Reset()                                   *)
(*   TkReset    ticker: case <-t.resetch                                     *)
(*   Stop*/LDone  shutdown: lister -> ticker.Stop() -> done                 *)
(* Deviation constant DrainBlocking = TRUE is the pinned code before the    *)
(* fix 76943fd: `if !timer.Stop() { <-timer.C }` blocks forever when the    *)
(* value was already taken (timer firedD).                                  *)
(***************************************************************************)
EXTENDS Integers, TLC

CONSTANTS Pmin, Pmax,      \* refresh period with fuzz, in ticks
          Ls, Ds,          \* list latencies and consumption delays to explore
          DrainBlocking

VARIABLES L, D, timer, trem, offer, tk, lphase, lrem, crem, tickon, since, first, stopreq
vars == <<L, D, timer, trem, offer, tk, lphase, lrem, crem, tickon, since, first, stopreq>>

Cap == Pmax + 1

Init == /\ L \in Ls /\ D \in Ds
        /\ timer = "armed" /\ trem \in Pmin..Pmax /\ offer = FALSE /\ tk = "loop"
        /\ lphase = "listing" /\ lrem = L /\ crem = 0 /\ tickon = FALSE
        /\ since = 0 /\ first = TRUE /\ stopreq = FALSE

Advance == /\ (timer = "armed" => trem > 0)
           /\ (lphase = "listing" => lrem > 0)
           /\ (lphase = "result" => crem > 0)
           /\ lphase # "done"
           /\ trem' = IF timer = "armed" THEN trem - 1 ELSE trem
           /\ lrem' = IF lphase = "listing" THEN lrem - 1 ELSE lrem
           /\ crem' = IF lphase = "result" THEN crem - 1 ELSE crem
           /\ since' = IF since < Cap THEN since + 1 ELSE since
           /\ UNCHANGED <<L, D, timer, offer, tk, lphase, tickon, first, stopreq>>

Fire == /\ timer = "armed" /\ trem = 0 /\ timer' = "firedU"
        /\ UNCHANGED <<L, D, trem, offer, tk, lphase, lrem, crem, tickon, since, first, stopreq>>

TkTimer == /\ tk = "loop" /\ timer = "firedU"
           /\ timer' = "firedD" /\ offer' = TRUE
           /\ UNCHANGED <<L, D, trem, tk, lphase, lrem, crem, tickon, since, first, stopreq>>

\* the tick is handed over: the ticker re-arms its timer, the lister starts the next list
TkNext == /\ tk = "loop" /\ offer /\ lphase = "wait" /\ tickon
          /\ offer' = FALSE /\ timer' = "armed" /\ trem' \in Pmin..Pmax
          /\ lphase' = "listing" /\ lrem' = L /\ tickon' = FALSE /\ first' = FALSE
          /\ UNCHANGED <<L, D, tk, crem, since, stopreq>>

LResult == /\ lphase = "listing" /\ lrem = 0
           /\ lphase' = "result" /\ crem' = D
           /\ UNCHANGED <<L, D, timer, trem, offer, tk, lrem, tickon, since, first, stopreq>>

\* the controller takes the result; the lister then calls ticker.Reset() (a rendezvous with the ticker loop)
LDeliver == /\ lphase = "result" /\ crem = 0
            /\ lphase' = "resetting" /\ since' = 0
            /\ UNCHANGED <<L, D, timer, trem, offer, tk, lrem, crem, tickon, first, stopreq>>

TkReset == /\ tk = "loop" /\ lphase = "resetting"
           /\ lphase' = "wait" /\ tickon' = TRUE          \* Reset() returned: tickch = ticker.Next()
           /\ IF timer = "firedD" /\ DrainBlocking
                THEN /\ tk' = "stuck" /\ UNCHANGED <<timer, trem, offer>>      \* `<-timer.C` never returns
                ELSE /\ timer' = "armed" /\ trem' \in Pmin..Pmax /\ offer' = FALSE /\ UNCHANGED tk
           /\ UNCHANGED <<L, D, lrem, crem, since, first, stopreq>>

StopReq == /\ ~stopreq /\ stopreq' = TRUE
           /\ UNCHANGED <<L, D, timer, trem, offer, tk, lphase, lrem, crem, tickon, since, first>>

\* lister: shutdown request case (any phase in which it sits in its select)
LStop == /\ stopreq /\ lphase \in {"listing", "result", "wait"}
         /\ lphase' = "stopping"
         /\ UNCHANGED <<L, D, timer, trem, offer, tk, lrem, crem, tickon, since, first, stopreq>>

TkStop == /\ tk = "loop" /\ lphase = "stopping" /\ tk' = "done"
          /\ UNCHANGED <<L, D, timer, trem, offer, lphase, lrem, crem, tickon, since, first, stopreq>>

LDone == /\ lphase = "stopping" /\ tk = "done" /\ lphase' = "done"
         /\ UNCHANGED <<L, D, timer, trem, offer, tk, lrem, crem, tickon, since, first, stopreq>>

Sys == Fire \/ TkTimer \/ TkNext \/ LResult \/ LDeliver \/ TkReset \/ LStop \/ TkStop \/ LDone
Next == Advance \/ Sys \/ StopReq
\* Go's select chooses among ready cases at random: a shutdown request that is ready infinitely often is
\* eventually chosen (strong fairness); every other step only needs weak fairness
Spec == Init /\ [][Next]_vars /\ WF_vars(Advance) /\ WF_vars(Fire) /\ WF_vars(TkTimer) /\ WF_vars(TkNext) /\ WF_vars(LResult)
             /\ WF_vars(LDeliver) /\ WF_vars(TkReset) /\ SF_vars(LStop) /\ WF_vars(TkStop) /\ WF_vars(LDone)

NotStuck == tk # "stuck"
\* a list starts no earlier than one (minimal) period after the previous result was taken
GapOK == [][(lphase # "listing" /\ lphase' = "listing") => since >= Pmin]_vars
\* the controller keeps listing for as long as it runs
KeepsListing == []<>(lphase = "listing" \/ stopreq)
\* and still shuts down
StopsPromptly == stopreq ~> (lphase = "done")
=============================================================================
