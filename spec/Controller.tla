----------------------------- MODULE Controller -----------------------------
(***************************************************************************)
(* Design model of the list/watch controller (controller.go, lister.go,     *)
(* watcher.go, watch_session.go) against a fake API server (C03 C04 C14,    *)
(* controller part of C08 and C02).                                         *)
(*                                                                          *)
(*  server    srv (objects), rv (resourceVersion counter), hist (events)    *)
(*  lister    one list at a time: ListStart takes the snapshot, ListReturn  *)
(*            / ListFail hands the result over (so results can be stale)    *)
(*  session   connecting | open | ended, the version it asked for (sver),   *)
(*            the last history version it has sent (spos), its buffer sq    *)
(*  watcher   curVersion (wver), the output channel wq and its generation   *)
(*            wgen, the retry timer                                         *)
(*  controller  a two-step select: CEnter captures the watcher's channel    *)
(*            generation (watcher.events() is evaluated when the select is  *)
(*            entered), CTakeList / CTakeEvent use what was captured         *)
(*                                                                          *)
(* Faults (budgeted): the server closes the stream, Watch() fails, a frame  *)
(* is dropped or duplicated, a list fails; a hanging Watch() is the absence *)
(* of ConnectOK (no fairness on the watch path in the C03 configuration).   *)
(* Status / bookmark / unknown frames change no state and are not modelled. *)
(*                                                                          *)
(* Deviation constants (pinned code before the fixes, refuted in the        *)
(* self-test): ChannelPerSession = TRUE: a retry replaces the output        *)
(* channel and the session-done path discards it (fix 8587073).             *)
(***************************************************************************)
EXTENDS CacheKernel, TLC

CONSTANTS CtlFilter, MaxMut, MaxLists, Buf,
          Relist,             \* FALSE: only the first list ever happens (refresh period far beyond the run)
          MaxClose, MaxConnErr, MaxDrop, MaxDup, MaxListFail,
          ChannelPerSession

VARIABLES srv, rv, hist,
          lphase, lsnap, nlists,
          sstate, sver, spos, sq,
          wver, wq, wgen, retry,
          cphase, ccap, cache, inited, mirror, stopped, failed,
          nclose, nconnerr, ndrop, ndup, nlistfail
vars == <<srv, rv, hist, lphase, lsnap, nlists, sstate, sver, spos, sq, wver, wq, wgen, retry,
          cphase, ccap, cache, inited, mirror, stopped, failed, nclose, nconnerr, ndrop, ndup, nlistfail>>

EmptyItems == [k \in Keys |-> Absent]
Accepted(it) == [k \in Keys |-> IF it[k].p /\ AcceptE(CtlFilter, k, it[k]) THEN it[k] ELSE Absent]
ListOfItems(it) == LET ord == SetToSeq({k \in Keys : it[k].p}) IN [i \in DOMAIN ord |-> Obj(ord[i], it[ord[i]].v, it[ord[i]].l)]
Apply(it, evs) == Replay(it, evs).it

Init ==
  /\ srv = EmptyItems /\ rv = 0 /\ hist = <<>>
  /\ lphase = "idle" /\ lsnap = [rv |-> 0, it |-> EmptyItems, fail |-> FALSE] /\ nlists = 0
  /\ sstate = "none" /\ sver = 0 /\ spos = 0 /\ sq = <<>>
  /\ wver = 0 /\ wq = <<>> /\ wgen = 0 /\ retry = FALSE
  /\ cphase = "enter" /\ ccap = 0 /\ cache = EmptyItems /\ inited = FALSE /\ mirror = EmptyItems
  /\ stopped = FALSE /\ failed = FALSE
  /\ nclose = 0 /\ nconnerr = 0 /\ ndrop = 0 /\ ndup = 0 /\ nlistfail = 0

(* ---- server ---- *)
SrvMutate ==
  /\ rv < MaxMut
  /\ \E k \in Keys, l \in Labels, del \in BOOLEAN :
       /\ (del => srv[k].p)
       /\ LET o == Obj(k, rv + 1, IF del THEN srv[k].l ELSE l)
              et == IF del THEN "delete" ELSE IF srv[k].p THEN "update" ELSE "create" IN
          /\ srv' = [srv EXCEPT ![k] = IF del THEN Absent ELSE Entry(rv + 1, l)]
          /\ hist' = Append(hist, [et |-> et, o |-> o])
  /\ rv' = rv + 1
  /\ UNCHANGED <<lphase, lsnap, nlists, sstate, sver, spos, sq, wver, wq, wgen, retry, cphase, ccap, cache, inited, mirror, stopped, failed,
                 nclose, nconnerr, ndrop, ndup, nlistfail>>

(* ---- lister ---- *)
ListStart ==
  /\ ~stopped /\ lphase = "idle" /\ nlists < MaxLists /\ (nlists = 0 \/ Relist)
  /\ lphase' = "listing" /\ lsnap' = [rv |-> rv, it |-> srv, fail |-> FALSE] /\ nlists' = nlists + 1
  /\ UNCHANGED <<srv, rv, hist, sstate, sver, spos, sq, wver, wq, wgen, retry, cphase, ccap, cache, inited, mirror, stopped, failed,
                 nclose, nconnerr, ndrop, ndup, nlistfail>>
ListReturn ==
  /\ lphase = "listing" /\ lphase' = "result"
  /\ UNCHANGED <<srv, rv, hist, lsnap, nlists, sstate, sver, spos, sq, wver, wq, wgen, retry, cphase, ccap, cache, inited, mirror, stopped, failed,
                 nclose, nconnerr, ndrop, ndup, nlistfail>>
ListFail ==
  /\ lphase = "listing" /\ nlistfail < MaxListFail
  /\ lphase' = "result" /\ lsnap' = [lsnap EXCEPT !.fail = TRUE] /\ nlistfail' = nlistfail + 1
  /\ UNCHANGED <<srv, rv, hist, nlists, sstate, sver, spos, sq, wver, wq, wgen, retry, cphase, ccap, cache, inited, mirror, stopped, failed,
                 nclose, nconnerr, ndrop, ndup>>

(* ---- watch session ---- *)
ConnectOK ==
  /\ sstate = "connecting" /\ sstate' = "open" /\ spos' = sver
  /\ UNCHANGED <<srv, rv, hist, lphase, lsnap, nlists, sver, sq, wver, wq, wgen, retry, cphase, ccap, cache, inited, mirror, stopped, failed,
                 nclose, nconnerr, ndrop, ndup, nlistfail>>
ConnectFail ==
  /\ sstate = "connecting" /\ nconnerr < MaxConnErr /\ sstate' = "ended" /\ nconnerr' = nconnerr + 1
  /\ UNCHANGED <<srv, rv, hist, lphase, lsnap, nlists, sver, spos, sq, wver, wq, wgen, retry, cphase, ccap, cache, inited, mirror, stopped, failed,
                 nclose, ndrop, ndup, nlistfail>>
\* the server sends the next event after spos; the session buffers it (drop-newest when full)
Deliver ==
  /\ sstate = "open" /\ spos < rv
  /\ LET e == hist[spos + 1] IN sq' = IF Len(sq) < Buf THEN Append(sq, e) ELSE sq
  /\ spos' = spos + 1
  /\ UNCHANGED <<srv, rv, hist, lphase, lsnap, nlists, sstate, sver, wver, wq, wgen, retry, cphase, ccap, cache, inited, mirror, stopped, failed,
                 nclose, nconnerr, ndrop, ndup, nlistfail>>
ServerDrop ==
  /\ sstate = "open" /\ spos < rv /\ ndrop < MaxDrop /\ spos' = spos + 1 /\ ndrop' = ndrop + 1
  /\ UNCHANGED <<srv, rv, hist, lphase, lsnap, nlists, sstate, sver, sq, wver, wq, wgen, retry, cphase, ccap, cache, inited, mirror, stopped, failed,
                 nclose, nconnerr, ndup, nlistfail>>
Duplicate ==
  /\ sstate = "open" /\ spos > sver /\ ndup < MaxDup /\ Len(sq) < Buf
  /\ sq' = Append(sq, hist[spos]) /\ ndup' = ndup + 1
  /\ UNCHANGED <<srv, rv, hist, lphase, lsnap, nlists, sstate, sver, spos, wver, wq, wgen, retry, cphase, ccap, cache, inited, mirror, stopped, failed,
                 nclose, nconnerr, ndrop, nlistfail>>
StreamClose ==
  /\ sstate = "open" /\ nclose < MaxClose /\ sstate' = "ended" /\ nclose' = nclose + 1
  /\ UNCHANGED <<srv, rv, hist, lphase, lsnap, nlists, sver, spos, sq, wver, wq, wgen, retry, cphase, ccap, cache, inited, mirror, stopped, failed,
                 nconnerr, ndrop, ndup, nlistfail>>

(* ---- watcher ---- *)
\* case evt := <-session.events(): forward (drop-newest) and remember the version
WForward ==
  /\ sstate \in {"open", "ended"} /\ sq # <<>>
  /\ wq' = IF Len(wq) < Buf THEN Append(wq, Head(sq)) ELSE wq
  /\ sq' = Tail(sq) /\ wver' = Head(sq).o.v
  /\ UNCHANGED <<srv, rv, hist, lphase, lsnap, nlists, sstate, sver, spos, wgen, retry, cphase, ccap, cache, inited, mirror, stopped, failed,
                 nclose, nconnerr, ndrop, ndup, nlistfail>>
\* case <-session.done(): whatever the session still buffers is discarded; retry later at the last received version
WDone ==
  /\ sstate = "ended"
  /\ sstate' = "none" /\ sq' = <<>> /\ retry' = TRUE
  /\ IF ChannelPerSession THEN wq' = <<>> /\ wgen' = wgen + 1 ELSE UNCHANGED <<wq, wgen>>
  /\ UNCHANGED <<srv, rv, hist, lphase, lsnap, nlists, sver, spos, wver, cphase, ccap, cache, inited, mirror, stopped, failed,
                 nclose, nconnerr, ndrop, ndup, nlistfail>>
WRetry ==
  /\ retry /\ sstate = "none" /\ ~stopped
  /\ retry' = FALSE /\ sstate' = "connecting" /\ sver' = wver
  /\ IF ChannelPerSession THEN wq' = <<>> /\ wgen' = wgen + 1 ELSE UNCHANGED <<wq, wgen>>
  /\ UNCHANGED <<srv, rv, hist, lphase, lsnap, nlists, spos, sq, wver, cphase, ccap, cache, inited, mirror, stopped, failed,
                 nclose, nconnerr, ndrop, ndup, nlistfail>>

(* ---- controller ---- *)
CEnter ==
  /\ ~stopped /\ cphase = "enter" /\ cphase' = "select" /\ ccap' = wgen
  /\ UNCHANGED <<srv, rv, hist, lphase, lsnap, nlists, sstate, sver, spos, sq, wver, wq, wgen, retry, cache, inited, mirror, stopped, failed,
                 nclose, nconnerr, ndrop, ndup, nlistfail>>

CTakeList ==
  /\ ~stopped /\ cphase = "select" /\ lphase = "result"
  /\ lphase' = "idle" /\ cphase' = "enter"
  /\ IF lsnap.fail
       THEN /\ stopped' = TRUE /\ failed' = TRUE
            /\ UNCHANGED <<cache, inited, mirror, sstate, sver, sq, wver, wq, wgen, retry>>
       ELSE \E r \in SyncFold(cache, CtlFilter, ListOfItems(lsnap.it)) :
            /\ Assert(RefSyncOK(cache, CtlFilter, ListOfItems(lsnap.it), r.it) /\ EventsOK(cache, r.it, r.ev), <<"sync", cache, lsnap, r>>)
            /\ cache' = r.it
            /\ inited' = TRUE
            \* the first sync publishes nothing; subscribers read the cache once Ready() closes
            /\ mirror' = IF inited THEN Apply(mirror, r.ev) ELSE r.it
            \* watcher.reset(version): new session at the list's version, new output channel
            /\ sstate' = "connecting" /\ sver' = lsnap.rv /\ sq' = <<>> /\ wver' = lsnap.rv
            /\ wq' = <<>> /\ wgen' = wgen + 1 /\ retry' = FALSE
            /\ UNCHANGED <<stopped, failed>>
  /\ UNCHANGED <<srv, rv, hist, lsnap, nlists, spos, ccap, nclose, nconnerr, ndrop, ndup, nlistfail>>

\* the controller reads the channel it captured when it entered the select
CTakeEvent ==
  /\ ~stopped /\ cphase = "select" /\ ccap = wgen /\ wq # <<>>
  /\ LET r == UpdateAlg(cache, CtlFilter, Head(wq).et, Head(wq).o) IN
     /\ cache' = r.it /\ mirror' = Apply(mirror, r.ev)
  /\ wq' = Tail(wq) /\ cphase' = "enter"
  /\ UNCHANGED <<srv, rv, hist, lphase, lsnap, nlists, sstate, sver, spos, sq, wver, wgen, retry, ccap, inited, stopped, failed,
                 nclose, nconnerr, ndrop, ndup, nlistfail>>

Lister == ListStart \/ ListReturn \/ ListFail
Session == ConnectOK \/ ConnectFail \/ Deliver \/ ServerDrop \/ Duplicate \/ StreamClose
Watcher == WForward \/ WDone \/ WRetry
Ctl == CEnter \/ CTakeList \/ CTakeEvent
Next == SrvMutate \/ Lister \/ Session \/ Watcher \/ Ctl

\* C03: fairness on the lister and the controller only: the watch may never deliver anything
SpecRelist == Init /\ [][Next]_vars /\ WF_vars(ListStart) /\ WF_vars(ListReturn) /\ WF_vars(CEnter) /\ WF_vars(CTakeList)
\* C04: fairness on the watch path (and the controller); relists disabled by Relist = FALSE
SpecWatch == Init /\ [][Next]_vars /\ WF_vars(ListStart) /\ WF_vars(ListReturn) /\ WF_vars(CEnter) /\ WF_vars(CTakeList) /\ SF_vars(CTakeEvent)
                  /\ WF_vars(ConnectOK) /\ WF_vars(Deliver) /\ WF_vars(WForward) /\ WF_vars(WDone) /\ WF_vars(WRetry)

(* ------------------------------------------------------------------ properties *)
\* C02 (system level): a subscriber that mirrors the cache by replaying the published events never diverges
MirrorOK == inited => mirror = cache
\* C08: ready only after a sync; a failed first list never makes anything ready
ReadyOK == (inited => nlists >= 1) /\ ((failed /\ nlists = 1) => ~inited)
\* the cache only ever holds accepted objects
CacheFiltered == FilterInv(cache, CtlFilter)
\* C14: only a failed list stops the controller (no Close in this model): watch faults are never fatal
FailStop == stopped => failed
\* C01 at system level: the cache never regresses an object to an older version
NoRegressCtl == [][\A k \in Keys : (cache[k].p /\ cache'[k].p) => cache'[k].v >= cache[k].v]_vars

ServerQuiet == rv = MaxMut
\* C03: once the server stops changing, a relist that starts afterwards leaves the cache equal to the accepted
\* server content - whatever the watch did or did not deliver ...
RelistConverges == [][(cphase = "select" /\ lphase = "result" /\ lphase' = "idle" /\ ~lsnap.fail /\ lsnap.rv = MaxMut)
                        => cache' = Accepted(srv)]_vars
\* ... and the controller always gets to take a list result (nothing on the watch path can block it)
C03Live == (lphase = "result") ~> (lphase = "idle")
\* C04: ... within the reconnect path alone (no relist), provided nothing overflowed and no frame was lost by the server
C04Live == (ServerQuiet /\ ~stopped /\ inited) ~> (cache = Accepted(srv) \/ stopped)
\* C14: a failed list stops the controller
C14Live == lsnap.fail ~> stopped
=============================================================================
