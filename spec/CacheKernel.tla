---------------------------- MODULE CacheKernel ----------------------------
(***************************************************************************)
(* Sequential kernel of kcache's cache actor (cache.go): the content       *)
(* `items`, the current `filter`, and the three mutating operations        *)
(*   Sync(list)  Update(type, obj)  Refilter(list, filter).                *)
(*                                                                         *)
(* Two things are written here, independently of each other:               *)
(*  - the REFERENCE semantics the properties C01/C02 state (RefSync,       *)
(*    RefUpdate, AllowedPost, AllowedEvents), written from the property    *)
(*    text, and                                                            *)
(*  - a transcription of the ALGORITHM in cache.go (SyncFold, UpdateAlg),  *)
(*    one CASE arm per switch arm of the Go code.                          *)
(* MCCache.tla checks with TLC that the algorithm refines the reference    *)
(* from every reachable state; trace/CacheRecords.tla judges transitions   *)
(* recorded from the real cache against the reference.                     *)
(***************************************************************************)
EXTENDS Integers, Sequences, FiniteSets, SequencesExt

CONSTANTS Keys,        \* set of object keys (namespace/name), strings
          Labels,      \* set of label values (the value of label "x"), integers
          Filters      \* set of filter names (strings) understood by Accept

NN == -99              \* a resource version that is not a number
IsNum(v) == v # NN

Absent == [p |-> FALSE, v |-> 0, l |-> 0]
Entry(v, l) == [p |-> TRUE, v |-> v, l |-> l]
Obj(k, v, l) == [k |-> k, v |-> v, l |-> l]

(***************************************************************************)
(* The filter family of the kernel universe.  An object is (key, version,  *)
(* label); a filter sees key and label only.                               *)
(*   null  accepts everything          all   rejects everything            *)
(*   lx1   label x = 1                 lx0   label x = 0                   *)
(*   nsa   the key "a"                 nlx1  not(lx1)                      *)
(*   fnx0  an opaque function that accepts label x = 0                     *)
(*   anx0 / anx1  And(Null, FN(x=0)) / And(Null, FN(x=1))                  *)
(***************************************************************************)
AcceptKL(f, k, l) ==
  CASE f = "null" -> TRUE
    [] f = "all"  -> FALSE
    [] f = "lx1"  -> l = 1
    [] f = "lx0"  -> l = 0
    [] f = "fnx0" -> l = 0
    [] f = "nlx1" -> l # 1
    [] f = "nsa"  -> k = "a"
    [] f = "nsp1" -> k \in {"a", "c"}   \* NSName(ns1/*): the keys a and c live in namespace ns1
    [] f = "nsp2" -> k \in {"b", "e"}   \* NSName(ns2/*)
    [] f = "nnpa" -> k \in {"a", "d"}   \* NSName(*/a): a name in any namespace (key a is ns1/a, key d is the cluster-scoped object a)
    [] f = "nnpb" -> k = "b"            \* NSName(*/b)
    [] f = "sel0" -> FALSE      \* LabelSelector(nil): labels.Nothing()
    [] f = "selall" -> TRUE     \* Selector(labels.NewSelector()): no requirement
    [] f = "anx0" -> l = 0      \* And(Null, FN(label x = 0)): comparable shell around an opaque function
    [] f = "anx1" -> l = 1      \* And(Null, FN(label x = 1))
    [] OTHER      -> FALSE     \* unknown names are reported by the trace specs (class unknown-filter)
Accept(f, o) == AcceptKL(f, o.k, o.l)
AcceptE(f, k, e) == AcceptKL(f, k, e.l)

FilterInv(items, f) == \A k \in Keys : items[k].p => AcceptE(f, k, items[k])

(***************************************************************************)
(* Reference semantics (C01).                                              *)
(***************************************************************************)
NumOf(list, k) == SelectSeq(list, LAMBDA o : o.k = k /\ IsNum(o.v))
MaxV(s) == CHOOSE v \in {s[i].v : i \in DOMAIN s} : \A j \in DOMAIN s : s[j].v <= v
HasDupKey(list) == \E i, j \in DOMAIN list : i # j /\ list[i].k = list[j].k

\* the set of entries the reference allows for key k after Sync(list) under filter f
RefSyncKey(cur, f, k, list) ==
  LET Lk == NumOf(list, k) IN
  IF Lk = <<>> THEN {Absent} ELSE
  LET mv == MaxV(Lk)
      newest == {Lk[i] : i \in {j \in DOMAIN Lk : Lk[j].v = mv}} IN
  IF cur.p /\ cur.v >= mv
    THEN {IF AcceptE(f, k, cur) THEN cur ELSE Absent}
    ELSE {IF Accept(f, m) THEN Entry(m.v, m.l) ELSE Absent : m \in newest}

RefSyncOK(pre, f, list, post) == \A k \in Keys : post[k] \in RefSyncKey(pre[k], f, k, list)

\* create / update events
RefPutKey(cur, f, o) ==
  IF ~IsNum(o.v) THEN {cur}
  ELSE IF ~cur.p THEN {IF Accept(f, o) THEN Entry(o.v, o.l) ELSE Absent}
  ELSE IF o.v > cur.v THEN {IF Accept(f, o) THEN Entry(o.v, o.l) ELSE Absent}
  ELSE {cur}

\* delete events: a delete older than the cached version is unspecified
RefDelKey(cur, o) ==
  IF ~IsNum(o.v) \/ ~cur.p THEN {cur}
  ELSE IF o.v >= cur.v THEN {Absent}
  ELSE {cur, Absent}

RefUpdateOK(pre, f, et, o, post) ==
  /\ \A k \in Keys \ {o.k} : post[k] = pre[k]
  /\ o.k \in Keys =>
       post[o.k] \in (IF et = "delete" THEN RefDelKey(pre[o.k], o) ELSE RefPutKey(pre[o.k], f, o))

(***************************************************************************)
(* Reference semantics of the emitted events (C02): sequential replay of   *)
(* the batch on the pre-state is well-formed at every element and yields   *)
(* the post-state; a key whose entry is unchanged has no event.            *)
(***************************************************************************)
RECURSIVE Replay(_, _)
Replay(it, evs) ==           \* returns [ok, it]
  IF evs = <<>> THEN [ok |-> TRUE, it |-> it] ELSE
  LET e == Head(evs)  k == e.o.k IN
  IF k \notin Keys THEN [ok |-> FALSE, it |-> it] ELSE
  CASE e.et = "create" ->
         IF it[k].p \/ ~IsNum(e.o.v) THEN [ok |-> FALSE, it |-> it]
         ELSE Replay([it EXCEPT ![k] = Entry(e.o.v, e.o.l)], Tail(evs))
    [] e.et = "update" ->
         IF ~it[k].p \/ ~IsNum(e.o.v) \/ e.o.v <= it[k].v THEN [ok |-> FALSE, it |-> it]
         ELSE Replay([it EXCEPT ![k] = Entry(e.o.v, e.o.l)], Tail(evs))
    [] e.et = "delete" ->
         IF ~it[k].p THEN [ok |-> FALSE, it |-> it]
         ELSE Replay([it EXCEPT ![k] = Absent], Tail(evs))
    [] OTHER -> [ok |-> FALSE, it |-> it]

EventsOK(pre, post, evs) ==
  LET r == Replay(pre, evs) IN
  /\ r.ok
  /\ r.it = post
  /\ \A k \in Keys : pre[k] = post[k] => ~\E i \in DOMAIN evs : evs[i].o.k = k

(***************************************************************************)
(* The algorithm of cache.go, arm by arm.                                  *)
(***************************************************************************)
SyncStep(f, st, o) ==           \* one iteration of doSync's loop; st = [it, set, ev]
  IF ~IsNum(o.v) \/ o.k \notin Keys THEN st ELSE
  LET k == o.k  cur == st.it[k]  found == cur.p  acc == Accept(f, o)
      put(et) == [it  |-> [st.it EXCEPT ![k] = Entry(o.v, o.l)],
                  set |-> st.set \cup {k},
                  ev  |-> Append(st.ev, [et |-> et, o |-> o])] IN
  CASE acc /\ ~found                 -> put("create")
    [] acc /\ found /\ cur.v < o.v   -> put("update")
    [] found /\ cur.v >= o.v         -> IF AcceptE(f, k, cur)
                                          THEN [st EXCEPT !.set = @ \cup {k}] ELSE st
    [] OTHER                         -> st

\* "delete what is not in the working set": Go map order, any order is possible
SyncFold(it, f, list) ==        \* set of possible [it, ev] results
  LET st == FoldLeft(LAMBDA acc, o : SyncStep(f, acc, o),
                     [it |-> it, set |-> {}, ev |-> <<>>], list)
      gone == {k \in Keys : st.it[k].p /\ k \notin st.set}
      post == [k \in Keys |-> IF k \in gone THEN Absent ELSE st.it[k]]
      dels(order) == [i \in DOMAIN order |->
                        [et |-> "delete", o |-> Obj(order[i], st.it[order[i]].v, st.it[order[i]].l)]] IN
  {[it |-> post, ev |-> st.ev \o dels(order)] : order \in SetToSeqs(gone)}

UpdateAlg(it, f, et, o) ==      \* doUpdate; deterministic
  IF ~IsNum(o.v) \/ o.k \notin Keys THEN [it |-> it, ev |-> <<>>] ELSE
  LET k == o.k  cur == it[k]  found == cur.p  acc == Accept(f, o) IN
  IF et = "delete" THEN
     IF found THEN [it |-> [it EXCEPT ![k] = Absent], ev |-> <<[et |-> "delete", o |-> o]>>]
              ELSE [it |-> it, ev |-> <<>>]
  ELSE
  CASE ~acc /\ ~found              -> [it |-> it, ev |-> <<>>]
    [] acc /\ ~found               -> [it |-> [it EXCEPT ![k] = Entry(o.v, o.l)], ev |-> <<[et |-> "create", o |-> o]>>]
    [] acc /\ found /\ cur.v < o.v  -> [it |-> [it EXCEPT ![k] = Entry(o.v, o.l)], ev |-> <<[et |-> "update", o |-> o]>>]
    [] ~acc /\ found /\ cur.v < o.v -> [it |-> [it EXCEPT ![k] = Absent], ev |-> <<[et |-> "delete", o |-> o]>>]
    [] OTHER                       -> [it |-> it, ev |-> <<>>]

=============================================================================
