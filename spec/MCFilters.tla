------------------------------ MODULE MCFilters ------------------------------
(***************************************************************************)
(* TLC model of filter equality (C17) at the design level: ImplEq is a     *)
(* transcription of the Equals methods in filter/*.go (structural          *)
(* comparison; opaque functions are never comparable; composite filters    *)
(* compare child by child in order; NSName compares its fully-qualified    *)
(* entries as a set and its partial entries as a sequence; selector        *)
(* filters compare their sorted requirement lists).  TLC checks over every *)
(* ordered pair of terms of the universe that                              *)
(*     ImplEq(t, u)  =>  t and u accept exactly the same objects           *)
(* and that a comparable term equals itself.                               *)
(***************************************************************************)
EXTENDS Filters, TLC

LabelMaps == {<<>>, <<<<"x", "1">>>>, <<<<"x", "2">>>>, <<<<"x", "1">>, <<"y", "1">>>>, <<<<"y", "1">>>>}
Objects == {[kind |-> "pod", ns |-> n, name |-> m, labels |-> l, node |-> "", sel |-> <<>>, inv |-> [kind |-> "", ns |-> "", name |-> ""]]
              : n \in {"n1", "n2"}, m \in {"a", "b"}, l \in LabelMaps}

Leaves ==
  {[op |-> "null"], [op |-> "all"],
   [op |-> "nsname", ids |-> << <<"n1", "a">> >>], [op |-> "nsname", ids |-> << <<"n1", "">> >>],
   [op |-> "nsname", ids |-> << <<"n1", "a">>, <<"n2", "b">> >>], [op |-> "nsname", ids |-> << <<"n2", "b">>, <<"n1", "a">> >>],
   [op |-> "nsname", ids |-> << <<"n1", "">>, <<"", "b">> >>], [op |-> "nsname", ids |-> << <<"", "b">>, <<"n1", "">> >>],
   [op |-> "labels", m |-> <<>>], [op |-> "labels", m |-> <<<<"x", "1">>>>], [op |-> "labels", m |-> <<<<"x", "1">>, <<"y", "1">>>>],
   [op |-> "lsel", sel |-> [nil |-> TRUE, ml |-> <<>>, me |-> <<>>]],
   [op |-> "lsel", sel |-> [nil |-> FALSE, ml |-> <<>>, me |-> <<>>]],
   [op |-> "lsel", sel |-> [nil |-> FALSE, ml |-> <<<<"x", "1">>>>, me |-> <<>>]],
   [op |-> "lsel", sel |-> [nil |-> FALSE, ml |-> <<>>, me |-> <<[key |-> "x", oper |-> "In", vals |-> <<"1", "2">>]>>]],
   [op |-> "lsel", sel |-> [nil |-> FALSE, ml |-> <<>>, me |-> <<[key |-> "x", oper |-> "NotIn", vals |-> <<"1">>]>>]],
   [op |-> "fn", id |-> "x1"], [op |-> "fn", id |-> "x1b"]}

Terms == Leaves \cup {[op |-> "not", c |-> l] : l \in Leaves}
                \cup {[op |-> o, cs |-> <<>>] : o \in {"and", "or"}}
                \cup {[op |-> o, cs |-> <<l>>] : o \in {"and", "or"}, l \in Leaves}
                \cup {[op |-> o, cs |-> <<l, m>>] : o \in {"and", "or"}, l \in Leaves, m \in Leaves}

\* the selector a labels / lsel filter is turned into: a set of requirements (labels.Selector keeps them sorted by key)
ReqsOf(t) == IF t.op = "labels" THEN {[key |-> p[1], oper |-> "=", vals |-> <<p[2]>>] : p \in Pairs(t.m)}
             ELSE {[key |-> p[1], oper |-> "=", vals |-> <<p[2]>>] : p \in Pairs(t.sel.ml)} \cup Range(t.sel.me)
IsSelector(t) == t.op = "labels" \/ (t.op = "lsel" /\ ~t.sel.nil)
Full(t) == {t.ids[i] : i \in {j \in DOMAIN t.ids : t.ids[j][1] # "" /\ t.ids[j][2] # ""}}
Partials(t) == SelectSeq(t.ids, LAMBDA id : id[1] = "" \/ id[2] = "")

RECURSIVE Comparable(_)
Comparable(t) == t.op # "fn"        \* every constructor but FN returns a ComparableFilter

RECURSIVE ImplEq(_, _)
ImplEq(t, u) ==
  CASE t.op = "fn" -> FALSE
    [] t.op \in {"null", "all"} -> u.op = t.op
    [] t.op = "not" -> u.op = "not" /\ Comparable(t.c) /\ ImplEq(t.c, u.c)
    [] t.op \in {"and", "or"} -> /\ u.op = t.op /\ Len(t.cs) = Len(u.cs)
                                 /\ \A i \in DOMAIN t.cs : Comparable(t.cs[i]) /\ Comparable(u.cs[i]) /\ ImplEq(t.cs[i], u.cs[i])
    [] t.op = "nsname" -> u.op = "nsname" /\ Full(t) = Full(u) /\ Partials(t) = Partials(u)
    [] IsSelector(t) -> IsSelector(u) /\ ReqsOf(t) = ReqsOf(u)
    [] t.op = "lsel" /\ t.sel.nil -> u.op = "lsel" /\ u.sel.nil          \* labels.Nothing()
    [] OTHER -> FALSE

Equiv(t, u) == \A o \in Objects : Accept(t, o) = Accept(u, o)

VARIABLES t, u
Init == t \in Terms /\ u \in Terms
Next == UNCHANGED <<t, u>>
Spec == Init /\ [][Next]_<<t, u>>

Sound == ImplEq(t, u) => Equiv(t, u)
Reflexive == (~HasFn(t) /\ t = u) => ImplEq(t, u)
=============================================================================
