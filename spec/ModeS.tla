-------------------------------- MODULE ModeS --------------------------------
(***************************************************************************)
(* Spec -> code direction for the filtered subscription (C08, C06, C07):   *)
(* TLC enumerates every order of the six stimuli of C08's quantifier       *)
(*   PR parent becomes ready      RE Refilter(equal filter)                *)
(*   RN Refilter(new filter)      PE a parent event is delivered           *)
(*   PC the parent cache changes  SU the node is subscribed                *)
(* up to length MaxLen, runs the node of FilterNode.tla to completion      *)
(* after each stimulus and prints, for every order, the state a reader can *)
(* observe then: does the node exist, is Ready() closed, the content of    *)
(* its cache, the events it emitted since the previous stimulus.           *)
(* The harness (`modes`) replays every printed order on the real           *)
(* filterSubscription over a driver-controlled parent with a quiescence    *)
(* barrier after each stimulus and records what it observes next to the    *)
(* prediction; trace/ModeSRecords.tla compares.                            *)
(*                                                                          *)
(* Concrete choices for the abstract stimuli (the same table is in the     *)
(* harness): the n-th parent cache change is Mut[n]; the n-th new filter   *)
(* is Flt[n]; a parent change made after the parent is ready is held by    *)
(* the driver and delivered by the next PE.                                 *)
(***************************************************************************)
EXTENDS CacheKernel, TLC, Json

CONSTANTS Deferred, MaxLen

VARIABLES stim, exists, pc, pr, held, pq, nmut, nflt, pdone, pending, ready, fc, flt, outnew
vars == <<stim, exists, pc, pr, held, pq, nmut, nflt, pdone, pending, ready, fc, flt, outnew>>

EmptyItems == [k \in Keys |-> Absent]
\* the n-th parent cache change (cyclic): key, label, delete?
Mut == << [k |-> "a", l |-> 1, del |-> FALSE], [k |-> "b", l |-> 0, del |-> FALSE], [k |-> "a", l |-> 0, del |-> FALSE],
          [k |-> "b", l |-> 1, del |-> FALSE], [k |-> "a", l |-> 0, del |-> TRUE],  [k |-> "b", l |-> 1, del |-> FALSE] >>
\* the n-th "new" filter (cyclic); the immediate variant starts with InitF
Flt == << "null", "lx0", "lx1", "all", "fnx0", "nlx1" >>
InitF == IF Deferred THEN "all" ELSE "lx1"
Comparable(f) == f # "fnx0"
SameFilter(f, g) == f = g /\ Comparable(f)
ListSeq(it) == LET ord == SetToSeq({k \in Keys : it[k].p}) IN [i \in DOMAIN ord |-> Obj(ord[i], it[ord[i]].v, it[ord[i]].l)]
SyncDet(it, f, list) == CHOOSE r \in SyncFold(it, f, list) : TRUE

Init == /\ stim = <<>> /\ exists = FALSE
        /\ pc = EmptyItems /\ pr = FALSE /\ held = <<>> /\ pq = <<>> /\ nmut = 0 /\ nflt = 0
        /\ pdone = FALSE /\ pending = FALSE /\ ready = FALSE /\ fc = EmptyItems /\ flt = InitF /\ outnew = <<>>

(* ---- internal steps of the node (run to completion) ---- *)
IntParentReady ==
  /\ exists /\ pr /\ ~pdone
  /\ pdone' = TRUE
  /\ IF Deferred /\ ~pending THEN UNCHANGED <<ready, fc>>
     ELSE fc' = SyncDet(fc, flt, ListSeq(pc)).it /\ ready' = TRUE
  /\ UNCHANGED <<stim, exists, pc, pr, held, pq, nmut, nflt, pending, flt, outnew>>
IntEvent ==
  /\ exists /\ pq # <<>>
  /\ pq' = Tail(pq)
  /\ IF ~ready THEN UNCHANGED <<fc, outnew>>
     ELSE LET r == UpdateAlg(fc, flt, Head(pq).et, Head(pq).o) IN fc' = r.it /\ outnew' = outnew \o r.ev
  /\ UNCHANGED <<stim, exists, pc, pr, held, nmut, nflt, pdone, pending, ready, flt>>
Internal == IntParentReady \/ IntEvent
Quiet == ~ENABLED Internal

(* ---- stimuli: each starts a new observation window (outnew is what the node emits from here on) ---- *)
StPR == /\ pr' = TRUE /\ outnew' = <<>> /\ UNCHANGED <<exists, pc, held, pq, nmut, nflt, pdone, pending, ready, fc, flt>>
StSU == /\ exists' = TRUE /\ outnew' = <<>> /\ UNCHANGED <<pc, pr, held, pq, nmut, nflt, pdone, pending, ready, fc, flt>>
StPC == LET m == Mut[(nmut % Len(Mut)) + 1]  v == nmut + 1
            o == Obj(m.k, v, m.l)
            doit == ~m.del \/ pc[m.k].p
            ev == IF m.del THEN [et |-> "delete", o |-> o] ELSE [et |-> IF pc[m.k].p THEN "update" ELSE "create", o |-> o] IN
        /\ nmut' = nmut + 1 /\ outnew' = <<>>
        /\ pc' = IF ~doit THEN pc ELSE [pc EXCEPT ![m.k] = IF m.del THEN Absent ELSE Entry(v, m.l)]
        /\ held' = IF doit /\ pr THEN Append(held, ev) ELSE held       \* a ready parent publishes; the driver holds it
        /\ UNCHANGED <<exists, pr, pq, nflt, pdone, pending, ready, fc, flt>>
StPE == /\ outnew' = <<>>
        /\ IF held # <<>> THEN held' = Tail(held) /\ pq' = (IF exists THEN Append(pq, Head(held)) ELSE pq)
                          ELSE UNCHANGED <<held, pq>>
        /\ UNCHANGED <<exists, pc, pr, nmut, nflt, pdone, pending, ready, fc, flt>>
Refilter(f) ==
  IF ~exists THEN outnew' = <<>> /\ UNCHANGED <<pending, ready, fc, flt>> ELSE
  LET isNew == ~SameFilter(flt, f) IN
  CASE ~pdone /\ ~isNew -> pending' = TRUE /\ outnew' = <<>> /\ UNCHANGED <<ready, fc, flt>>
    [] ~pdone /\ isNew  -> fc' = SyncDet(fc, f, <<>>).it /\ flt' = f /\ pending' = TRUE /\ outnew' = <<>> /\ UNCHANGED ready
    [] pdone /\ ready /\ ~isNew -> outnew' = <<>> /\ UNCHANGED <<pending, ready, fc, flt>>
    [] pdone /\ ~ready /\ ~isNew -> ready' = TRUE /\ outnew' = <<>> /\ UNCHANGED <<pending, fc, flt>>
    [] pdone /\ isNew -> LET r == SyncDet(fc, f, ListSeq(pc)) IN
                         /\ fc' = r.it /\ flt' = f /\ UNCHANGED pending
                         /\ IF ready THEN outnew' = r.ev /\ UNCHANGED ready ELSE ready' = TRUE /\ outnew' = <<>>
StRE == Refilter(flt) /\ UNCHANGED <<exists, pc, pr, held, pq, nmut, nflt, pdone>>
StRN == Refilter(Flt[(nflt % Len(Flt)) + 1]) /\ nflt' = (IF exists THEN nflt + 1 ELSE nflt)
        /\ UNCHANGED <<exists, pc, pr, held, pq, nmut, pdone>>

Stims == {"PR", "SU", "PC", "PE", "RE", "RN"}
Stimulus(s) ==
  /\ Quiet /\ Len(stim) < MaxLen
  /\ stim' = Append(stim, s)
  /\ CASE s = "PR" -> StPR [] s = "SU" -> StSU [] s = "PC" -> StPC [] s = "PE" -> StPE [] s = "RE" -> StRE [] s = "RN" -> StRN

Next == Internal \/ \E s \in Stims : Stimulus(s)
Spec == Init /\ [][Next]_vars

\* every quiescent state after a stimulus is one behaviour to replay: print the order and what must be observable
Observable == [exists |-> exists, ready |-> exists /\ ready,
               fc |-> IF exists THEN ListSeq(fc) ELSE <<>>,
               out |-> outnew]
Emit == (Quiet /\ stim # <<>>) => PrintT(<<"BEH", ToJson([deferred |-> Deferred, stim |-> stim, obs |-> Observable])>>)
\* sanity of the model itself along the way (the C08 clauses)
ReadyOK == (exists /\ ready) => (pr /\ pdone)
SilentBeforeReady == (exists /\ ~ready) => outnew = <<>>
=============================================================================
</content>
