----------------------------- MODULE FilterNode -----------------------------
(***************************************************************************)
(* Design model of one filtered subscription (subscription_filter.go):     *)
(* the readiness state machine around a private cache, below an abstract   *)
(* parent (cache `pc`, ready flag `pr`, published events queued in `pq`).   *)
(*                                                                          *)
(* One action per select case of filterSubscription.run:                    *)
(*   FParentReady   case <-preadych                                         *)
(*   FRefilter(f)   case f := <-s.refilterch      (the code's 5-way split)  *)
(*   FEvent         case evt := <-s.parent.Events()                         *)
(* Environment: PMutate (the parent's cache changes; once the parent is     *)
(* ready it publishes the delta), PReady, a Refilter call with any filter.  *)
(* The private cache is driven by the transcription of cache.go            *)
(* (CacheKernel!SyncFold / UpdateAlg).                                      *)
(*                                                                          *)
(* Deviation constants (the shipped configuration checks the code's        *)
(* values; the others are refuted by TLC in the self-test):                 *)
(*   InitialFilterOfDeferred  "all" in the code (SubscribeForFilter)        *)
(*   DropWhenNotReady         TRUE in the code: events before ready are     *)
(*                            discarded, the later sync covers them         *)
(***************************************************************************)
EXTENDS CacheKernel, TLC

CONSTANTS Deferred,                 \* SubscribeForFilter / CloneForFilter variant
          InitFilter,               \* filter given to SubscribeWithFilter (immediate variant)
          InitialFilterOfDeferred,  \* "all" in the code
          MaxMut,                   \* parent mutations
          MaxRefilter               \* Refilter calls

VARIABLES pc, pr, pq, ver, pdone, pending, ready, supplied, fc, flt, out, nref
vars == <<pc, pr, pq, ver, pdone, pending, ready, supplied, fc, flt, out, nref>>

EmptyItems == [k \in Keys |-> Absent]
ListOf(it) == LET ks == {k \in Keys : it[k].p} IN
              IF ks = {} THEN {<<>>} ELSE {[i \in DOMAIN ord |-> Obj(ord[i], it[ord[i]].v, it[ord[i]].l)] : ord \in SetToSeqs(ks)}
Filtered(it, f) == [k \in Keys |-> IF it[k].p /\ AcceptE(f, k, it[k]) THEN it[k] ELSE Absent]
\* filter.FiltersEqual on the family: the opaque function is never equal to anything, not even itself
Comparable(f) == f # "fnx0"
SameFilter(f, g) == f = g /\ Comparable(f)

Init ==
  /\ pc = EmptyItems /\ pr = FALSE /\ pq = <<>> /\ ver = 0
  /\ pdone = FALSE /\ pending = FALSE /\ ready = FALSE /\ supplied = FALSE
  /\ fc = EmptyItems
  /\ flt = IF Deferred THEN InitialFilterOfDeferred ELSE InitFilter
  /\ out = <<>> /\ nref = 0

(* ---- environment: the parent ---- *)
\* the parent's cache creates/updates/deletes one object; a ready parent publishes the event
PMutate ==
  /\ ver < MaxMut
  /\ \E k \in Keys, l \in Labels, del \in BOOLEAN :
       LET o == Obj(k, ver + 1, l)
           ev == IF del THEN [et |-> "delete", o |-> o]
                 ELSE [et |-> IF pc[k].p THEN "update" ELSE "create", o |-> o] IN
       /\ (del => pc[k].p)
       /\ pc' = [pc EXCEPT ![k] = IF del THEN Absent ELSE Entry(ver + 1, l)]
       /\ pq' = IF pr THEN Append(pq, ev) ELSE pq
  /\ ver' = ver + 1
  /\ UNCHANGED <<pr, pdone, pending, ready, supplied, fc, flt, out, nref>>

PReady == /\ ~pr /\ pr' = TRUE
          /\ UNCHANGED <<pc, pq, ver, pdone, pending, ready, supplied, fc, flt, out, nref>>

(* ---- the filter subscription ---- *)
FParentReady ==
  /\ pr /\ ~pdone
  /\ pdone' = TRUE
  /\ IF Deferred /\ ~pending
       THEN UNCHANGED <<ready, fc, out>>
       ELSE \E l \in ListOf(pc) : \E r \in SyncFold(fc, flt, l) :
              /\ fc' = r.it /\ ready' = TRUE /\ UNCHANGED out        \* the first sync is silent
  /\ UNCHANGED <<pc, pr, pq, ver, pending, supplied, flt, nref>>

FRefilter(f) ==
  /\ nref < MaxRefilter /\ nref' = nref + 1
  /\ supplied' = TRUE
  /\ LET isNew == ~SameFilter(flt, f) IN
     CASE ~pdone /\ ~isNew ->
            /\ pending' = TRUE /\ UNCHANGED <<ready, fc, flt, out>>
       [] ~pdone /\ isNew ->
            /\ \E r \in SyncFold(fc, f, <<>>) : fc' = r.it
            /\ flt' = f /\ pending' = TRUE /\ UNCHANGED <<ready, out>>
       [] pdone /\ ready /\ ~isNew ->
            UNCHANGED <<pending, ready, fc, flt, out>>
       [] pdone /\ ~ready /\ ~isNew ->
            /\ ready' = TRUE /\ UNCHANGED <<pending, fc, flt, out>>
       [] pdone /\ isNew ->
            \E l \in ListOf(pc) : \E r \in SyncFold(fc, f, l) :
              /\ fc' = r.it /\ flt' = f
              /\ IF ready THEN out' = out \o r.ev /\ UNCHANGED ready
                          ELSE ready' = TRUE /\ UNCHANGED out
              /\ UNCHANGED pending
  /\ UNCHANGED <<pc, pr, pq, ver, pdone>>

FEvent ==
  /\ pq # <<>>
  /\ pq' = Tail(pq)
  /\ IF ~ready THEN UNCHANGED <<fc, out>>
     ELSE LET r == UpdateAlg(fc, flt, Head(pq).et, Head(pq).o) IN
          /\ Assert(EventsOK(fc, r.it, r.ev), <<"delta", fc, Head(pq), r>>)
          /\ fc' = r.it /\ out' = out \o r.ev
  /\ UNCHANGED <<pc, pr, ver, pdone, pending, ready, supplied, flt, nref>>

Next == PMutate \/ PReady \/ FParentReady \/ FEvent \/ \E f \in Filters : FRefilter(f)
Spec == Init /\ [][Next]_vars /\ WF_vars(FParentReady) /\ WF_vars(FEvent)

(* ------------------------------------------------------------------ properties *)
\* C06: once in-flight events have drained, the private cache is the filter applied to the parent cache
FilterQuiescent == (ready /\ pq = <<>>) => fc = Filtered(pc, flt)
\* every cached object satisfies the current filter, always
FilterInvariant == FilterInv(fc, flt)
\* C08: ready only after the parent is ready and (deferred) a filter was supplied
ReadyImpliesParent == ready => (pr /\ pdone /\ (Deferred => supplied))
\* C08: nothing is emitted before ready
SilentBeforeReady == ~ready => out = <<>>
\* C08: at the instant of readiness the cache holds the filtered parent content (checked as an action property)
ReadyMeansSynced == [][(~ready /\ ready') => fc' = Filtered(pc, flt')]_vars
\* C07: a refilter on a ready node with nothing in flight emits exactly the membership delta, nothing for an equal filter
RefilterDelta ==
  [][(ready /\ pq = <<>> /\ nref' = nref + 1) =>
       LET new == SubSeq(out', Len(out) + 1, Len(out')) IN
       /\ fc' = Filtered(pc, flt')
       /\ EventsOK(fc, fc', new)
       /\ (SameFilter(flt, flt') /\ flt' = flt => new = <<>>)]_vars
\* liveness (C06/C08): a ready parent and a supplied filter eventually make the node ready and consistent
Converges == (pr /\ (~Deferred \/ supplied)) ~> (ready /\ (pq = <<>> => fc = Filtered(pc, flt)))
=============================================================================
