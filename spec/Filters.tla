------------------------------- MODULE Filters -------------------------------
(***************************************************************************)
(* Filter terms as data and their meaning (C17, C18, C19).                 *)
(*                                                                         *)
(* `Accept(t, o)` is written from the property statements and the          *)
(* Kubernetes documentation of label selectors and workload ownership,     *)
(* not from the Go code.  Terms and objects use the JSON shapes the        *)
(* harness emits (label maps are sequences of <<key, value>> pairs).       *)
(*                                                                         *)
(*  term  [op |-> "null" | "all"]                                          *)
(*        [op |-> "not", c |-> t]        [op |-> "and"|"or", cs |-> <<t>>] *)
(*        [op |-> "nsname", ids |-> << <<ns, name>> >>]  ("" = any)        *)
(*        [op |-> "labels", m |-> pairs]                                   *)
(*        [op |-> "lsel", sel |-> S]  [op |-> "selector", reqs |-> <<R>>]  *)
(*        [op |-> "fn", id |-> name]     (opaque Go function, see FnAccept)*)
(*        [op |-> "node", names |-> <<n>>]                                 *)
(*        [op |-> "involved", kind, ns, name]                              *)
(*        [op |-> "selmatch", target |-> pairs]                            *)
(*        [op |-> "pods", kind |-> K, srcs |-> <<W>>]                      *)
(*        [op |-> "services", ings |-> <<[ns, backends]>>]                 *)
(*  S = [nil |-> BOOLEAN, ml |-> pairs, me |-> <<R>>]                      *)
(*  R = [key, oper \in {"In","NotIn","Exists","DoesNotExist"}, vals]       *)
(*  W = [ns, name, sel |-> S, tmpl |-> pairs]                              *)
(*  object [kind, ns, name, labels |-> pairs, node, sel |-> pairs,         *)
(*          inv |-> [kind, ns, name]]                                      *)
(***************************************************************************)
EXTENDS Integers, Sequences, FiniteSets

Pairs(m) == {<<m[i][1], m[i][2]>> : i \in DOMAIN m}
Range(s) == {s[i] : i \in DOMAIN s}
HasKey(lab, k) == \E p \in Pairs(lab) : p[1] = k
ValOf(lab, k) == (CHOOSE p \in Pairs(lab) : p[1] = k)[2]

\* equality-based selector: every pair of the selector is a label of the object
MatchSet(sel, lab) == Pairs(sel) \subseteq Pairs(lab)

\* one set-based requirement (Kubernetes label selector semantics)
MatchReq(r, lab) ==
  CASE r.oper = "In"           -> HasKey(lab, r.key) /\ ValOf(lab, r.key) \in Range(r.vals)
    [] r.oper = "NotIn"        -> ~HasKey(lab, r.key) \/ ValOf(lab, r.key) \notin Range(r.vals)
    [] r.oper = "Exists"       -> HasKey(lab, r.key)
    [] r.oper = "DoesNotExist" -> ~HasKey(lab, r.key)

\* metav1.LabelSelector: nil selects nothing, the empty selector selects everything
MatchLabelSelector(s, lab) ==
  IF s.nil THEN FALSE
  ELSE MatchSet(s.ml, lab) /\ \A i \in DOMAIN s.me : MatchReq(s.me[i], lab)

\* the opaque functions the harness wraps with filter.FN
FnAccept(id, o) ==
  CASE id = "x1"  -> <<"x", "1">> \in Pairs(o.labels)
    [] id = "x1b" -> <<"x", "1">> \in Pairs(o.labels)       \* a second, distinct Go func value with the same meaning
    [] id = "n1"  -> o.ns = "n1"
    [] id = "cx1" -> <<"x", "1">> \in Pairs(o.labels)       \* two closures made by one function literal
    [] id = "cx2" -> <<"x", "2">> \in Pairs(o.labels)

(***************************************************************************)
(* Kubernetes ownership: does workload w of kind K select a pod with       *)
(* labels lab (namespaces are compared by the caller)?                     *)
(*  service: spec.selector is a map; a service without selector selects    *)
(*           nothing.                                                      *)
(*  rc:      spec.selector is a map; lacking one, the template labels.     *)
(*  others:  spec.selector is a LabelSelector; lacking one (nil), the      *)
(*           template labels.                                              *)
(***************************************************************************)
WSelects(K, w, lab) ==
  CASE K = "service" -> w.sel.ml # <<>> /\ MatchSet(w.sel.ml, lab)
    [] K = "rc"      -> IF w.sel.ml # <<>> THEN MatchSet(w.sel.ml, lab) ELSE MatchSet(w.tmpl, lab)
    [] OTHER         -> IF w.sel.nil THEN MatchSet(w.tmpl, lab) ELSE MatchLabelSelector(w.sel, lab)

RECURSIVE Accept(_, _)
Accept(t, o) ==
  CASE t.op = "null" -> TRUE
    [] t.op = "all"  -> FALSE
    [] t.op = "not"  -> ~Accept(t.c, o)
    [] t.op = "and"  -> \A i \in DOMAIN t.cs : Accept(t.cs[i], o)
    [] t.op = "or"   -> \E i \in DOMAIN t.cs : Accept(t.cs[i], o)
    [] t.op = "nsname" -> \E i \in DOMAIN t.ids :
                            /\ t.ids[i][1] = "" \/ t.ids[i][1] = o.ns
                            /\ t.ids[i][2] = "" \/ t.ids[i][2] = o.name
    [] t.op = "labels"   -> MatchSet(t.m, o.labels)
    [] t.op = "lsel"     -> MatchLabelSelector(t.sel, o.labels)
    [] t.op = "selector" -> \A i \in DOMAIN t.reqs : MatchReq(t.reqs[i], o.labels)
    [] t.op = "fn"       -> FnAccept(t.id, o)
    [] t.op = "node"     -> o.kind = "pod" /\ o.node \in Range(t.names)
    [] t.op = "involved" -> o.kind = "event" /\ o.inv.kind = t.kind /\ o.inv.ns = t.ns /\ o.inv.name = t.name
    [] t.op = "selmatch" -> o.kind = "service" /\ o.sel # <<>> /\ t.target # <<>> /\ MatchSet(o.sel, t.target)
    [] t.op = "pods"     -> \E i \in DOMAIN t.srcs : t.srcs[i].ns = o.ns /\ WSelects(t.kind, t.srcs[i], o.labels)
    [] t.op = "services" -> \E i \in DOMAIN t.ings : t.ings[i].ns = o.ns /\ o.name \in Range(t.ings[i].backends)

\* The property constrains workload filters on pods (services filter: on services) only.
RECURSIVE Defined(_, _)
Defined(t, o) ==
  CASE t.op = "pods"     -> o.kind = "pod"
    [] t.op = "services" -> o.kind = "service"
    [] t.op = "not"      -> Defined(t.c, o)
    [] t.op \in {"and", "or"} -> \A i \in DOMAIN t.cs : Defined(t.cs[i], o)
    [] OTHER -> TRUE

\* does the term contain an opaque function (such terms are not comparable)
RECURSIVE HasFn(_)
HasFn(t) ==
  CASE t.op = "fn" -> TRUE
    [] t.op = "not" -> HasFn(t.c)
    [] t.op \in {"and", "or"} -> \E i \in DOMAIN t.cs : HasFn(t.cs[i])
    [] OTHER -> FALSE
=============================================================================
