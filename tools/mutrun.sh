#!/bin/bash
# usage: mutrun.sh ID:PROP[,PROP] ...   -- summary line per mutant/property
for m in "$@"; do id=${m%%:*}; ps=${m##*:}; 
  for p in ${ps//,/ }; do
    r=$(MUTEST_LINES=2 tools/mutest.sh seeded/candidates/$id/patch.diff $p 2>&1)
    rc=$(echo "$r" | grep -o 'rc=[0-9]*' | head -1)
    cls=$(echo "$r" | grep -o 'class=[a-z-]*' | sort | uniq -c | sort -rn | head -3 | tr '\n' ' ')
    inc=$(echo "$r" | grep -m1 INCONCLUSIVE | cut -c1-200)
    echo "$id $p $rc $cls $inc"
  done
done
