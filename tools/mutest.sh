#!/bin/bash
# usage: mutest.sh <patch.diff> <prop> [<prop>...]   (VERIF_TIER honoured)
# Applies the patch to /repo, runs ./check for each property, always reverts.
patch=$(readlink -f "$1"); shift
cd /repo || exit 2
if ! git diff --quiet; then echo "/repo has uncommitted changes"; exit 2; fi
trap 'git -C /repo checkout -- . ; git -C /repo clean -fdq' EXIT
git apply "$patch" || { echo "patch does not apply"; exit 2; }
cd /verif
for p in "$@"; do
  out=$(./check "$p" 2>&1); rc=$?
  echo "== $p rc=$rc $(echo "$out" | grep -c '^VIOLATION') violation line(s)"
  echo "$out" | grep -A1 '^VIOLATION\|INCONCLUSIVE\|KNOWN-FINDING' | cut -c1-400 | head -${MUTEST_LINES:-8}
done
