"""Tree family: C05 C06 C07 C08 C10 C11 C12 C16 (and the in-situ part of C02).
Mode C scenarios (harness `tree`) on a real controller over the fake API server,
validated line by line by spec/trace/TreeTrace.tla."""
import os, re, json, time, collections
import vlib
from vlib import Inconclusive, log
from registry import family

CFG = """SPECIFICATION Spec
CONSTANTS
  Keys = {"a", "b", "c", "d"}
  Labels = {0, 1}
  Filters = {"null", "all", "lx1", "lx0", "fnx0", "nlx1", "nsa", "anx0", "anx1"}
INVARIANT Done
CHECK_DEADLOCK FALSE
"""

KERNEL = {"events", "filter-inv", "refsync", "refupdate", "dupkey", "foreign-object"}
ORDER = {"order-in", "order", "recv-unexplained", "lost-in-fanout", "lost-at-quiescence", "deq-unknown-stage", "stuck-at-quiescence"}
CLASSES = {
    "C03": KERNEL | ORDER | {"synced-list-not-from-server", "cache-not-current", "relisting-stopped", "ctl-events-differ", "close-hangs", "shutdown-timeout",
                             "ready-before-sync", "publish-before-ready", "api-call-blocks"},
    "C04": KERNEL | ORDER | {"cache-not-current", "resume-version", "frame-mistranslated", "frame-ignored", "drop-not-full", "drop-unknown",
                             "watch-version-unknown", "ctl-events-differ", "stopped-without-cause", "watch-not-reestablished"},
    "C15": KERNEL | {"read-not-linearizable", "read-error", "returned-slice-not-owned", "list-not-snapshot", "data-race"},
    "C13": {"lists-overlap", "list-too-early", "relisting-stopped", "close-hangs", "shutdown-timeout", "goroutine-leak"},
    "C14": {"list-failure-not-fatal", "stopped-without-cause", "failure-not-reported", "ready-after-failed-first-list",
            "deliberate-close-reports-failure", "shutdown-timeout", "close-hangs"},
    "C05": ORDER | {"cache-older-than-event", "ctl-events-differ"},
    "C06": KERNEL | {"filter-not-quiescent", "filter-not-set", "fsub-events-differ", "fsub-emits-other", "events-not-emitted",
                     "sync-list-not-parent-listing", "list-not-snapshot", "lost-at-quiescence", "stuck-at-quiescence", "order", "recv-unexplained"},
    "C07": KERNEL | {"equal-filters-differ", "fsub-events-differ", "fsub-emits-other", "events-not-emitted", "filter-not-quiescent", "filter-not-set",
                     "sync-list-not-parent-listing", "recv-unexplained", "stuck-at-quiescence"},
    "C08": {"ready-before-sync", "publish-before-ready", "parent-not-ready", "ready-before-parent", "deferred-ready-without-filter",
            "ready-unsynced", "ready-twice", "event-before-ready", "emit-before-ready", "ready-observed-not-declared", "list-not-snapshot",
            "callback-before-ready", "flag-mismatch"},
    "C10": ORDER | {"drop-not-full", "drop-unknown", "cache-not-current", "close-hangs", "shutdown-timeout", "api-call-blocks"},
    "C11": {"stopped-outside-closed-subtree", "cascade-incomplete", "shutdown-timeout", "closed-before-drained", "close-hangs", "api-call-blocks"} | ORDER,
    "C12": {"goroutine-leak", "shutdown-timeout", "close-hangs", "call-blocks-after-done", "call-fails-after-done", "closed-before-drained", "api-call-blocks",
            "racing-call-zombie"},
    "C16": {"callbacks-overlap", "initialize-not-first-or-twice", "callback-before-ready", "callback-after-done", "initialize-not-cache-content",
            "callback-before-initialize", "callback-not-next-event", "callback-of-unknown-monitor", "stuck-at-quiescence"},
}
# (variant, share of the scenario budget)
VARIANTS = {
    "C03": [("ctl:relist", 1.0)],
    "C04": [("ctl:watch", 1.0)],
    "C05": [("mixed", 0.7), ("close", 0.3)],
    "C06": [("refilter", 0.6), ("mixed", 0.4)],
    "C07": [("refilter", 1.0)],
    "C08": [("refilter", 0.5), ("mixed", 0.3), ("monitor", 0.2)],
    "C10": [("overflow", 1.0)],
    "C11": [("close", 0.6), ("monitor", 0.2), ("overflow", 0.2)],
    "C12": [("ctl:shutdown", 0.5), ("close", 0.2), ("mixed", 0.15), ("overflow", 0.15)],
    "C13": [("ctl:timing", 1.0)],
    "C14": [("ctl:listfail", 0.7), ("ctl:watch", 0.3)],
    "C15": [("cachelin:readers", 1.0)],
    "C16": [("monitor", 1.0)],
}
# scenarios per process for the real-time controller variants (quick, thorough)
CTL_PER = {"relist": (6, 60), "watch": (1, 8), "listfail": (8, 80), "timing": (2, 15), "shutdown": (10, 100)}
# design-level models checked exhaustively by TLC for each property: (quick, thorough)
MODELS = {
    "C03": ([("Controller", "Controller-relist.cfg")], [("Controller", "Controller-relist.cfg"), ("Controller", "Controller-relist-big.cfg")]),
    "C04": ([("Controller", "Controller-watch.cfg")], [("Controller", "Controller-watch.cfg"), ("Controller", "Controller-watch-big.cfg")]),
    "C05": ([("Tree", "Tree-live.cfg")], [("Tree", "Tree-live.cfg"), ("Tree", "Tree-safety.cfg")]),
    "C06": ([("FilterNode", "FilterNode-imm-quick.cfg"), ("FilterNode", "FilterNode-def-quick.cfg")], [("FilterNode", "FilterNode-imm.cfg"), ("FilterNode", "FilterNode-def.cfg")]),
    "C07": ([("FilterNode", "FilterNode-imm-quick.cfg")], [("FilterNode", "FilterNode-imm.cfg")]),
    "C08": ([("FilterNode", "FilterNode-imm-quick.cfg"), ("FilterNode", "FilterNode-def-quick.cfg"), ("Controller", "Controller-relist.cfg")],
            [("FilterNode", "FilterNode-imm.cfg"), ("FilterNode", "FilterNode-def.cfg"), ("Controller", "Controller-relist.cfg")]),
    "C10": ([("Tree", "Tree-live.cfg")], [("Tree", "Tree-live.cfg"), ("Tree", "Tree-safety.cfg")]),
    "C11": ([("Tree", "Tree-live.cfg")], [("Tree", "Tree-live.cfg"), ("Tree", "Tree-safety.cfg")]),
    "C12": ([("Tree", "Tree-live.cfg"), ("Lister", "Lister.cfg")], [("Tree", "Tree-live.cfg"), ("Tree", "Tree-safety.cfg"), ("Lister", "Lister.cfg")]),
    "C13": ([("Lister", "Lister.cfg")], [("Lister", "Lister.cfg")]),
    "C14": ([("Controller", "Controller-relist.cfg")], [("Controller", "Controller-relist.cfg"), ("Controller", "Controller-relist-big.cfg")]),
    "C15": ([("CacheActor", "CacheActor.cfg")], [("CacheActor", "CacheActor.cfg")]),
    "C16": ([("Monitor", "Monitor.cfg")], [("Monitor", "Monitor.cfg")]),
}
BUDGET = {"quick": 160, "thorough": 2400}
NPROC = 16


def run_tree(prop, tier, res, want, variants, budget, events=100):
    sc = vlib.scratch()
    h = vlib.build_harness()
    cmds, files = [], []
    for (variant, share) in variants:
        n = max(NPROC, int(budget * share))
        per = max(1, n // NPROC)
        driver = "tree"
        if variant.startswith("ctl:"):
            driver, variant = "ctl", variant[4:]
            per = max(1, int(CTL_PER[variant][0 if tier == "quick" else 1] * share))
        if variant.startswith("cachelin:"):
            driver, variant = "cachelin", "readers"
            per = 4 if tier == "quick" else 40
        if variant == "overflow":
            # scenario idx selects the stream length {0,1,99,100,101,250,400,700}; these scenarios are long
            per = max(per // 4, 8) if tier == "thorough" else 2
        for p in range(NPROC):
            out = os.path.join(sc, "%s-%s-%d.ndjson" % (driver, variant, p))
            files.append((variant, out))
            argv = [h, driver, "-out", out, "-variant", variant, "-count", str(per), "-seed", str(vlib.seed() * 100 + p)]
            if driver == "tree":
                argv += ["-events", str(events)]
            if driver == "cachelin":
                argv = [h, "cachelin", "-out", out, "-count", str(per), "-seed", str(vlib.seed() * 100 + p), "-ops", "300" if tier == "quick" else "1500"]
            cmds.append((argv, out + ".log", None))
    t0 = time.time()
    rcs = vlib.run_parallel(cmds, timeout=420 if tier == "quick" else 1500, maxpar=NPROC)
    nscen = 0
    crashed = set()
    for (rc, (variant, f)) in zip(rcs, files):
        lg = open(f + ".log").read()
        if rc != 0:
            # the process died: a panic in a library goroutine.  The trace up to the crash is on disk only if flushed;
            # report the crash itself (class by property) with the stack
            if "panic" in lg or "fatal error" in lg:
                res.classify("crash", "harness process died in variant %s: %s" % (variant, lg[:1800]), artefact={"variant": variant})
                crashed.add(f)
                continue
            raise Inconclusive("tree driver failed (rc=%s): %s" % (rc, lg[-800:]))
        m = re.search(r"scenarios=(\d+)", lg)
        nscen += int(m.group(1)) if m else 0
    log("%s: %d scenarios on the real code in %.1fs" % (prop, nscen, time.time() - t0))
    d = vlib.tlc_dir(None)
    cfgp = os.path.join(d, "tree.cfg")
    open(cfgp, "w").write(CFG)
    tl = [(vlib.tlc_argv(d, "TreeTrace.tla", cfgp, workers=1, heap="3g", procs=2), f + ".tlc", {"VT_TRACE": f}, d)
          for (_, f) in files if os.path.exists(f) and os.path.getsize(f) > 0 and f not in crashed]
    t0 = time.time()
    rcs = vlib.run_parallel(tl, timeout=2400, maxpar=8)
    lines = 0
    classes = collections.Counter()
    allcls = collections.Counter()
    samples = []
    for (rc, item) in zip(rcs, tl):
        f = item[1][:-4]
        out = open(f + ".tlc").read()
        nrec = sum(1 for _ in open(f))
        m = re.search(r'<<"CONSUMED", (\d+)>>', out)
        if rc != 0 or not m or int(m.group(1)) != nrec:
            raise Inconclusive("TLC did not consume %s: %s" % (f, out[-2500:]))
        lines += nrec
        for (ln, cls, txt) in vlib.verdicts(out):
            allcls[cls] += 1
            if cls == "unknown-filter":
                raise Inconclusive("trace names a filter the specification does not know: " + txt[:300])
            if cls in want:
                classes[cls] += 1
                res.classify(cls, txt, artefact={"trace": os.path.basename(f), "line": ln, "seed": vlib.seed(), "tier": tier})
        if len(samples) < 2:
            with open(f) as fh:
                ls = fh.readlines()
                samples.append([json.loads(x) for x in ls[40:46]])
    log("%s: TLC validated %d trace lines in %.1fs; other-property classes seen: %s" % (prop, lines, time.time() - t0, dict((k, v) for k, v in allcls.items() if k not in want)))
    return nscen, lines, samples, allcls


def race_run(res, tier):
    """Auxiliary monitor outside the model: the same driver under the Go race detector."""
    sc = vlib.scratch()
    try:
        h = vlib.build_harness(race=True)
    except Inconclusive as e:
        log("race build unavailable, skipped: %s" % str(e)[:200])
        return 0
    out = os.path.join(sc, "race.ndjson")
    rc, so, se = vlib.run_harness(["cachelin", "-out", out, "-count", "4" if tier == "quick" else "16", "-ops", "400", "-seed", str(vlib.seed())],
                                  timeout=600, race=True, env={"GORACE": "halt_on_error=0 exitcode=66"})
    n = se.count("WARNING: DATA RACE")
    if n:
        res.classify("data-race", se[se.index("WARNING: DATA RACE"):][:3000], artefact={"race_reports": n})
    elif rc != 0:
        raise Inconclusive("race-detector run failed: rc=%s %s" % (rc, se[-500:]))
    return 1


@family("C03", "C04", "C05", "C06", "C07", "C08", "C10", "C11", "C12", "C13", "C14", "C15", "C16")
def check_tree(prop, tier, replay):
    res = vlib.Result(prop, tier, "model_checking")
    want = CLASSES[prop] | {"crash"}
    # 1. the design: TLC explores every interleaving of the bounded model and evaluates the property there
    mgen, mdist, mnames = vlib.model_check_all(MODELS[prop][0 if tier == "quick" else 1])
    # 2. the binding: scenarios on the real code, every recorded line a step of the trace specification
    nscen, lines, samples, allcls = run_tree(prop, tier, res, want, VARIANTS[prop], BUDGET[tier])
    if prop == "C15":
        race_run(res, tier)
    if prop == "C16":
        # the typed layer's monitors (all 12 generated packages): same callback protocol
        import fam_filters
        st = fam_filters.run_typed(res, tier, {"typed-monitor-protocol", "crash"})
        nscen += st["snaps"]
        lines += st["lines"]
    res.coverage = {
        "states": mdist, "transitions": mgen, "design_models": mnames,
        "traces_validated_against_impl": nscen,
        "samples": samples,
        "evaluations": nscen, "distinct_nontrivial": nscen,
        "rule": "seeded random scenarios (distinct seeds): a real controller on the fake API server, a tree of up to 10 nodes of all six constructors plus monitors created at random points of a paced mutation stream, healthy/slow/stalled consumers, refilters and closes, schedule perturbation through the logger; each trace line is one spec step",
        "variants": VARIANTS[prop], "trace_lines": lines,
        "checker_cmd": "tlc trace/TreeTrace.tla over traces of `harness tree`",
        "classes_judged": sorted(want),
        "not_quiescent_lines": allcls.get("not-quiescent", 0),
    }
    res.assumptions = [
        "hooks log after the own state change and before publishing it (verif tag); rendezvous hand-offs are logged by the receiver",
        "buffer-full decisions are judged against the occupancy at the stage's `in` line; a consumer's receive not yet logged gives one slot of slack",
        "quiescence = every library and harness-worker goroutine blocked in two consecutive stop-the-world stack dumps with no trace progress in between",
    ]
    return res.finish()
