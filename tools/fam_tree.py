"""Tree family: C05 C06 C07 C08 C10 C11 C12 C16 (and the in-situ part of C02).
Mode C scenarios (harness `tree`) on a real controller over the fake API server,
validated line by line by spec/trace/TreeTrace.tla."""
import os, re, json, time, collections
import vlib
from vlib import Inconclusive, log
from registry import family

CFG = """SPECIFICATION Spec
CONSTANTS
  Keys = {"a", "b", "c", "d"}
  Labels = {0, 1}
  Filters = {"null", "all", "lx1", "lx0", "fnx0", "nlx1", "nsa", "anx0", "anx1", "nsp1", "nsp2", "nnpa", "nnpb", "sel0", "selall"}
INVARIANT Done
CHECK_DEADLOCK FALSE
"""

KERNEL = {"events", "filter-inv", "refsync", "refupdate", "dupkey", "foreign-object"}
ORDER = {"order-in", "order", "recv-unexplained", "lost-in-fanout", "lost-at-quiescence", "deq-unknown-stage", "stuck-at-quiescence"}
CLASSES = {
    "C03": KERNEL | ORDER | {"synced-list-not-from-server", "list-not-applied", "read-not-linearizable", "returned-slice-not-owned", "cache-not-current", "relisting-stopped", "ctl-events-differ", "close-hangs", "shutdown-timeout",
                             "ready-before-sync", "publish-before-ready", "api-call-blocks"},
    "C04": KERNEL | ORDER | {"read-not-linearizable", "returned-slice-not-owned", "cache-not-current", "resume-version", "frame-mistranslated", "frame-ignored", "drop-not-full", "drop-unknown",
                             "watch-version-unknown", "ctl-events-differ", "stopped-without-cause", "watch-not-reestablished"},
    "C15": KERNEL | {"read-not-linearizable", "operation-not-atomic", "read-error", "returned-slice-not-owned", "list-not-snapshot", "data-race"},
    "C13": {"lists-overlap", "list-too-early", "list-before-consumed-plus-period", "relisting-stopped", "close-hangs", "shutdown-timeout", "goroutine-leak"},
    "C14": {"list-failure-not-fatal", "stopped-without-cause", "failure-not-reported", "ready-after-failed-first-list",
            "deliberate-close-reports-failure", "shutdown-timeout", "close-hangs"},
    "C05": ORDER | {"tree-log-differs", "cache-older-than-event", "ctl-events-differ", "drop-not-full", "drop-unknown"},
    "C06": KERNEL | {"refilter-lost", "filter-not-quiescent", "filter-not-set", "fsub-events-differ", "fsub-emits-other", "events-not-emitted", "runaway-goroutine",
                     "sync-list-not-parent-listing", "list-not-snapshot", "lost-at-quiescence", "stuck-at-quiescence", "order", "recv-unexplained"},
    "C07": KERNEL | {"refilter-lost", "equal-filters-differ", "fsub-events-differ", "fsub-emits-other", "events-not-emitted", "runaway-goroutine", "filter-not-quiescent", "filter-not-set",
                     "sync-list-not-parent-listing", "recv-unexplained", "stuck-at-quiescence"},
    "C08": {"ready-before-sync", "publish-before-ready", "parent-not-ready", "ready-before-parent", "deferred-ready-without-filter",
            "ready-unsynced", "ready-with-wrong-filter", "ready-twice", "event-before-ready", "emit-before-ready", "ready-observed-not-declared", "list-not-snapshot",
            "callback-before-ready", "flag-mismatch"},
    "C10": ORDER | {"drop-not-full", "drop-unknown", "cache-not-current", "filter-not-quiescent", "list-not-snapshot", "fsub-emits-other", "events-not-emitted", "runaway-goroutine", "close-hangs", "shutdown-timeout", "api-call-blocks"},
    "C11": {"tree-done-differs", "tree-log-differs", "stopped-outside-closed-subtree", "cascade-incomplete", "shutdown-timeout", "closed-before-drained", "close-hangs", "api-call-blocks", "goroutine-leak", "runaway-goroutine"} | ORDER,
    "C12": {"call-in-flight-after-done", "tree-errs-differ", "tree-done-differs", "goroutine-leak", "shutdown-timeout", "close-hangs", "call-blocks-after-done", "call-fails-after-done", "closed-before-drained", "api-call-blocks",
            "racing-call-zombie", "runaway-goroutine"},
    "C16": {"monitor-history-not-allowed", "modesmon-error", "callbacks-overlap", "initialize-not-first-or-twice", "callback-before-ready", "callback-after-done", "initialize-not-cache-content",
            "callback-before-initialize", "callback-not-next-event", "callback-of-unknown-monitor", "stuck-at-quiescence", "monitor-not-initialized"},
}
# (variant, share of the scenario budget)
VARIANTS = {
    "C03": [("ctl:relist", 1.0)],
    "C04": [("ctl:watch", 1.0)],
    "C05": [("mixed", 0.7), ("close", 0.3), ("ctl:relist", 0.5)],
    "C06": [("refilter", 0.5), ("mixed", 0.35), ("overflow", 0.15)],
    "C07": [("refilter", 1.0)],
    "C08": [("refilter", 0.5), ("mixed", 0.3), ("monitor", 0.2)],
    "C10": [("overflow", 1.0)],
    "C11": [("close", 0.5), ("monitor", 0.15), ("overflow", 0.15), ("ctl:shutdown", 0.4), ("ctl:listfail", 0.25)],
    "C12": [("ctl:shutdown", 0.5), ("close", 0.2), ("mixed", 0.15), ("overflow", 0.15), ("ctl:listfail", 0.25), ("ctl:watch", 0.3)],   # ctl:watch: Close() after watch reconnects (R7-C12-1)
    "C13": [("ctl:timing", 1.0)],
    "C14": [("ctl:listfail", 0.7), ("ctl:watch", 0.3)],
    "C15": [("cachelin:readers", 1.0)],
    "C16": [("monitor", 0.85), ("overflow", 0.15)],
}
# scenarios per process for the real-time controller variants (quick, thorough)
CTL_PER = {"relist": (6, 60), "watch": (1, 8), "listfail": (8, 80), "timing": (2, 15), "shutdown": (10, 100)}
# design-level models checked exhaustively by TLC for each property: (quick, thorough)
MODELS = {
    "C03": ([("Controller", "Controller-relist.cfg")], [("Controller", "Controller-relist.cfg"), ("Controller", "Controller-relist-big.cfg")]),
    "C04": ([("Controller", "Controller-watch.cfg")], [("Controller", "Controller-watch.cfg"), ("Controller", "Controller-watch-big.cfg")]),
    "C05": ([("Tree", "Tree-live.cfg")], [("Tree", "Tree-live.cfg"), ("Tree", "Tree-safety.cfg")]),
    "C06": ([("FilterNode", "FilterNode-imm-quick.cfg"), ("FilterNode", "FilterNode-def-quick.cfg")], [("FilterNode", "FilterNode-imm.cfg"), ("FilterNode", "FilterNode-def.cfg")]),
    "C07": ([("FilterNode", "FilterNode-imm-quick.cfg")], [("FilterNode", "FilterNode-imm.cfg")]),
    "C08": ([("FilterNode", "FilterNode-imm-quick.cfg"), ("FilterNode", "FilterNode-def-quick.cfg"), ("Controller", "Controller-relist.cfg")],
            [("FilterNode", "FilterNode-imm.cfg"), ("FilterNode", "FilterNode-def.cfg"), ("Controller", "Controller-relist.cfg")]),
    "C10": ([("Tree", "Tree-live.cfg")], [("Tree", "Tree-live.cfg"), ("Tree", "Tree-safety.cfg")]),
    "C11": ([("Tree", "Tree-live.cfg"), ("JoinLife", "JoinLife.cfg")], [("Tree", "Tree-live.cfg"), ("Tree", "Tree-safety.cfg"), ("JoinLife", "JoinLife.cfg")]),
    "C12": ([("Tree", "Tree-live.cfg"), ("Lister", "Lister.cfg"), ("Lifecycle", "Lifecycle.cfg"), ("JoinLife", "JoinLife.cfg")],
            [("Tree", "Tree-live.cfg"), ("Tree", "Tree-safety.cfg"), ("Lister", "Lister.cfg"), ("Lifecycle", "Lifecycle.cfg"), ("JoinLife", "JoinLife.cfg")]),
    "C13": ([("Lister", "Lister.cfg")], [("Lister", "Lister.cfg")]),
    "C14": ([("Controller", "Controller-relist.cfg")], [("Controller", "Controller-relist.cfg"), ("Controller", "Controller-relist-big.cfg")]),
    "C15": ([("CacheActor", "CacheActor.cfg")], [("CacheActor", "CacheActor.cfg")]),
    "C16": ([("Monitor", "Monitor.cfg")], [("Monitor", "Monitor.cfg")]),
}
BUDGET = {"quick": 160, "thorough": 2400}
NPROC = 16
KIND_RE = re.compile(r'"e":"([^"]+)"')


def run_tree(prop, tier, res, want, variants, budget, events=100):
    sc = vlib.scratch()
    h = vlib.build_harness()
    cmds, files = [], []
    for (variant, share) in variants:
        n = max(NPROC, int(budget * share))
        per = max(1, n // NPROC)
        driver = "tree"
        if variant.startswith("ctl:"):
            driver, variant = "ctl", variant[4:]
            per = max(1, int(CTL_PER[variant][0 if tier == "quick" else 1] * share))
        if variant.startswith("cachelin:"):
            driver, variant = "cachelin", "readers"
            per = 4 if tier == "quick" else 40
        if variant == "overflow":
            # scenario idx selects the stream length {0,1,99,100,101,250,400,700}; these scenarios are long
            per = max(per // 4, 8) if tier == "thorough" else 2
        for p in range(NPROC):
            out = os.path.join(sc, "%s-%s-%d.ndjson" % (driver, variant, p))
            files.append((variant, out))
            argv = [h, driver, "-out", out, "-variant", variant, "-count", str(per), "-seed", str(vlib.seed() * 100 + p)]
            if driver == "tree":
                argv += ["-events", str(events)]
            if driver == "cachelin":
                argv = [h, "cachelin", "-out", out, "-count", str(per), "-seed", str(vlib.seed() * 100 + p), "-ops", "300" if tier == "quick" else "1500"]
            cmds.append((argv, out + ".log", None))
    t0 = time.time()
    rcs = vlib.run_parallel(cmds, timeout=420 if tier == "quick" else 1500, maxpar=NPROC)
    nscen = 0
    crashed = set()
    for (rc, (variant, f)) in zip(rcs, files):
        lg = open(f + ".log").read()
        if rc != 0:
            # the process died: a panic in a library goroutine.  The trace up to the crash is on disk only if flushed;
            # report the crash itself (class by property) with the stack
            if "panic" in lg or "fatal error" in lg:
                res.classify("crash", "harness process died in variant %s: %s" % (variant, lg[:1800]), artefact={"variant": variant})
                crashed.add(f)
                continue
            raise Inconclusive("tree driver failed (rc=%s): %s" % (rc, lg[-800:]))
        m = re.search(r"scenarios=(\d+)", lg)
        nscen += int(m.group(1)) if m else 0
    log("%s: %d scenarios on the real code in %.1fs" % (prop, nscen, time.time() - t0))
    d = vlib.tlc_dir(None)
    cfgp = os.path.join(d, "tree.cfg")
    open(cfgp, "w").write(CFG)
    tl = [(vlib.tlc_argv(d, "TreeTrace.tla", cfgp, workers=1, heap="3g", procs=2), f + ".tlc", {"VT_TRACE": f}, d)
          for (_, f) in files if os.path.exists(f) and os.path.getsize(f) > 0 and f not in crashed]
    t0 = time.time()
    rcs = vlib.run_parallel(tl, timeout=2400, maxpar=8)
    lines = 0
    saved_traces = []
    kinds = collections.Counter()
    classes = collections.Counter()
    allcls = collections.Counter()
    samples = []
    for (rc, item) in zip(rcs, tl):
        f = item[1][:-4]
        out = open(f + ".tlc").read()
        nrec = 0
        with open(f) as fh:
            for line in fh:
                nrec += 1
                mk = KIND_RE.search(line)
                if mk:
                    kinds[mk.group(1)] += 1
        m = re.search(r'<<"CONSUMED", (\d+)>>', out)
        if rc != 0 or not m or int(m.group(1)) != nrec:
            raise Inconclusive("TLC did not consume %s: %s" % (f, out[-2500:]))
        lines += nrec
        for (ln, cls, txt) in vlib.verdicts(out):
            allcls[cls] += 1
            if cls == "unknown-filter":
                raise Inconclusive("trace names a filter the specification does not know: " + txt[:300])
            if cls in want:
                classes[cls] += 1
                window = None
                if classes[cls] <= 2 and ln > 0:
                    # keep the part of the recorded trace that leads to the rejected line with the replay artefact
                    try:
                        with open(f) as fh:
                            ls = fh.readlines()
                        begin = max(i for i in range(ln) if '"e":"begin"' in ls[i]) if any('"e":"begin"' in x for x in ls[:ln]) else 0
                        window = {"scenario_header": ls[begin].strip(), "lines_before": [x.strip() for x in ls[max(begin, ln - 80):ln - 1]], "rejected_line": ls[ln - 1].strip()}
                    except Exception:
                        window = None
                saved = None
                if not saved_traces and os.path.getsize(f) < 60 * 1024 * 1024:
                    # keep the whole recorded trace of the first rejected file next to the replay artefacts
                    try:
                        dd = os.path.join(os.environ.get("VERIF_REPLAY_DIR", os.path.join(vlib.VERIF, "replays")), prop)
                        os.makedirs(dd, exist_ok=True)
                        saved = os.path.join(dd, "trace-%d-%s" % (int(time.time()), os.path.basename(f)))
                        import shutil as _sh
                        _sh.copy(f, saved)
                        saved_traces.append(saved)
                    except Exception:
                        saved = None
                res.classify(cls, txt, artefact={"trace": os.path.basename(f), "line": ln, "seed": vlib.seed(), "tier": tier, "trace_window": window,
                                                 "full_trace": saved or (saved_traces[0] if saved_traces else None)})
        if len(samples) < 2:
            with open(f) as fh:
                ls = fh.readlines()
                samples.append([json.loads(x) for x in ls[40:46]])
    log("%s: TLC validated %d trace lines in %.1fs; other-property classes seen: %s" % (prop, lines, time.time() - t0, dict((k, v) for k, v in allcls.items() if k not in want and k != "__kinds__")))
    # vacuity: which line kinds of the trace specification were exercised by this run
    spec_kinds = set(re.findall(r'\[\] e = "([^"]+)"', open(os.path.join(vlib.SPEC, "trace", "TreeTrace.tla")).read())) | {"begin"}
    allcls["__kinds__"] = dict((k, kinds.get(k, 0)) for k in sorted(spec_kinds))
    return nscen, lines, samples, allcls


def race_run(res, tier):
    """Auxiliary monitor outside the model: the same driver under the Go race detector."""
    sc = vlib.scratch()
    try:
        h = vlib.build_harness(race=True)
    except Inconclusive as e:
        log("race build unavailable, skipped: %s" % str(e)[:200])
        return 0
    out = os.path.join(sc, "race.ndjson")
    rc, so, se = vlib.run_harness(["cachelin", "-out", out, "-count", "4" if tier == "quick" else "16", "-ops", "400", "-seed", str(vlib.seed())],
                                  timeout=600, race=True, env={"GORACE": "halt_on_error=0 exitcode=66"})
    n = se.count("WARNING: DATA RACE")
    if n:
        res.classify("data-race", se[se.index("WARNING: DATA RACE"):][:3000], artefact={"race_reports": n})
    elif rc != 0:
        raise Inconclusive("race-detector run failed: rc=%s %s" % (rc, se[-500:]))
    return 1


@family("C03", "C04", "C05", "C06", "C07", "C08", "C10", "C11", "C12", "C13", "C14", "C15", "C16")
def check_tree(prop, tier, replay):
    res = vlib.Result(prop, tier, "model_checking")
    want = CLASSES[prop] | {"crash"}
    # 1. the design: TLC explores every interleaving of the bounded model and evaluates the property there
    mgen, mdist, mnames = vlib.model_check_all(MODELS[prop][0 if tier == "quick" else 1])
    # 2. the binding: scenarios on the real code, every recorded line a step of the trace specification
    nscen, lines, samples, allcls = run_tree(prop, tier, res, want, VARIANTS[prop], BUDGET[tier])
    if prop == "C15":
        race_run(res, tier)
    if prop == "C08":
        # "... and hence of a join": the joins' readiness on real typed controllers
        import fam_filters
        js = fam_filters.run_joins(res, tier, {"join-ready-before-sides", "join-content-before-ready", "join-not-ready", "crash"})
        nscen += js["scenarios"]
    modes = None
    modesmon = None
    modestree = None
    if prop in ("C06", "C07", "C08"):
        # spec -> code: every stimulus order enumerated by TLC, replayed on the real filterSubscription
        modes = run_modes(res, tier, MODES_CLASSES | {"crash"})
        nscen += modes["orders"]
        mdist += modes["states"]
        mgen += modes["generated"]
    if prop in ("C05", "C11", "C12"):
        # spec -> code: every order of emit / subscribe / clone / close / root stop replayed on real publishers and subscriptions
        modestree = run_modes_tree(res, tier, {"C05": {"tree-log-differs"}, "C11": {"tree-done-differs", "tree-log-differs"}, "C12": {"tree-errs-differ", "tree-done-differs"}}[prop] | {"crash"})
        nscen += modestree["orders"]
        mdist += modestree["states"]
        mgen += modestree["generated"]
    if prop == "C08":
        # unbounded counterpart of ReadyImpliesParent / SilentBeforeReady (any universe, any number of mutations and refilters)
        mnames = mnames + [vlib.prove("FilterNodeProofs")]
    if prop == "C12":
        # joins: closing a join result, and asking for a join on bases that have shut down, leaves nothing behind
        import fam_filters
        js = fam_filters.run_joins(res, tier, {"join-leak", "join-on-stopped-base", "join-close-hangs", "join-close-stops-base", "join-closed-by-source", "crash"})
        nscen += js["scenarios"]
    if prop == "C11":
        # joins (spec/JoinLife.tla): closing a join never stops its bases, a source that stops never stops the join
        import fam_filters
        js = fam_filters.run_joins(res, tier, {"join-close-stops-base", "join-closed-by-source", "crash"})
        nscen += js["scenarios"]
    if prop == "C10":
        # the typed layer's subscriptions: a never-reading typed subscriber keeps the first buffer, siblings see everything
        import fam_filters
        st = fam_filters.run_typed(res, tier, {"typed-healthy-lost-events", "typed-stalled-not-first-buffer", "crash"})
        nscen += 12
    if prop == "C16":
        # the typed layer's monitors (all 12 generated packages): same callback protocol
        import fam_filters
        st = fam_filters.run_typed(res, tier, {"typed-monitor-protocol", "crash"})
        nscen += st["snaps"]
        lines += st["lines"]
        # unbounded (any MaxEvents, any buffer) counterpart of Monitor.cfg's Serial / InitFirstOnce / InOrder
        mnames = mnames + [vlib.prove("MonitorProofs")]
        # spec -> code: every order of the monitor's stimuli replayed on the real monitor
        modesmon = run_modes_mon(res, tier, {"callbacks-overlap", "initialize-not-cache-content", "initialize-not-first-or-twice", "callback-not-next-event", "monitor-history-not-allowed", "modesmon-error", "crash"})
        nscen += modesmon["replays"]
        mdist += modesmon["states"]
        mgen += modesmon["generated"]
    res.coverage = {
        "states": mdist, "transitions": mgen, "design_models": mnames,
        "traces_validated_against_impl": nscen,
        "samples": samples,
        "evaluations": nscen, "distinct_nontrivial": nscen,
        "rule": "seeded random scenarios (distinct seeds): a real controller on the fake API server, a tree of up to 10 nodes of all six constructors plus monitors created at random points of a paced mutation stream, healthy/slow/stalled consumers, refilters and closes, schedule perturbation through the logger; each trace line is one spec step",
        "variants": VARIANTS[prop], "trace_lines": lines,
        "checker_cmd": "tlc trace/TreeTrace.tla over traces of `harness tree`",
        "classes_judged": sorted(want),
        "not_quiescent_lines": allcls.get("not-quiescent", 0),
        "trace_line_kinds_seen": allcls.get("__kinds__", {}),
        "trace_line_kinds_never_seen_in_this_run": sorted(k for k, v in allcls.get("__kinds__", {}).items() if v == 0),
        "mode_s_monitor": modesmon,
        "mode_s_tree": modestree,
        "mode_s": None if modes is None else {"stimulus_orders_replayed": modes["orders"], "max_length": modes["maxlen"], "exhaustive": True, "sample": modes["samples"][:1]},
    }
    res.assumptions = [
        "hooks log after the own state change and before publishing it (verif tag); rendezvous hand-offs are logged by the receiver",
        "buffer-full decisions are judged against the occupancy at the stage's `in` line; a consumer's receive not yet logged gives one slot of slack",
        "quiescence = every library and harness-worker goroutine blocked in two consecutive stop-the-world stack dumps with no trace progress in between",
    ]
    return res.finish()


def run_modes_mon1(res, tier, want, noupd):
    """Spec -> code for the monitor: TLC enumerates every order of {ready, publish, close, handler returns} (ModeSMon.tla)
    with every history the specification allows; the harness replays each order on the real monitor; TLC compares."""
    import json as _json
    sc = vlib.scratch()
    h = vlib.build_harness()
    n = 5 if tier == "quick" else 7
    rc, out = vlib.run_tlc("ModeSMon.tla", open(os.path.join(vlib.SPEC, "cfg", "ModeSMon-%d%s.cfg" % (n, "-noupd" if noupd else ""))).read(), workers=4, heap="6g", timeout=1800)
    if rc != 0 or "No error has been found" not in out:
        raise Inconclusive("ModeSMon.tla (%d): the model is refuted or TLC failed: %s" % (n, out[-2000:]))
    gen, states = vlib.tlc_stats(out)
    beh = collections.OrderedDict()
    for m in re.finditer(r'<<"BEH", (".*")>>', out):
        b = _json.loads(_json.loads(m.group(1)))
        beh.setdefault(tuple(b["stim"]), set()).add(_json.dumps(b["hist"], sort_keys=True))
    expect = sum(4 ** k for k in range(1, n + 1))
    if len(beh) != expect:
        raise Inconclusive("ModeSMon.tla printed %d orders, expected %d" % (len(beh), expect))
    bf = os.path.join(sc, "monbeh%s.ndjson" % ("-noupd" if noupd else ""))
    with open(bf, "w") as f:
        for st, hs in beh.items():
            f.write('{"stim":%s,"preds":[%s]}\n' % (_json.dumps(list(st)), ",".join(sorted(hs))))
    nsh = 8 if tier == "quick" else 16
    cmds, outs = [], []
    for s_ in range(nsh):
        o = os.path.join(sc, "modesmon%s-%d.ndjson" % ("-noupd" if noupd else "", s_))
        outs.append(o)
        cmds.append(([h, "modesmon", "-in", bf, "-out", o, "-shards", str(nsh), "-shard", str(s_), "-repeat", "1" if noupd else "2"] + (["-noupdate"] if noupd else []), o + ".log", None))
    rcs = vlib.run_parallel(cmds, timeout=2400, maxpar=16)
    good = []
    for rc2, o in zip(rcs, outs):
        lg = open(o + ".log").read()
        if rc2 != 0:
            if "panic" in lg or "fatal error" in lg:
                res.classify("crash", "modesmon driver died: " + lg[:1500])
                continue
            raise Inconclusive("modesmon driver failed: " + lg[-500:])
        good.append(o)
    dj = vlib.tlc_dir(None)
    cfgp = os.path.join(dj, "m.cfg")
    open(cfgp, "w").write(MODES_CFG)
    tl = [(vlib.tlc_argv(dj, "ModeSMonRecords.tla", cfgp, workers=1, heap="2g", procs=2), o + ".tlc", {"VT_TRACE": o}, dj) for o in good]
    rcs = vlib.run_parallel(tl, timeout=1800, maxpar=8)
    total = 0
    multi = sum(1 for v in beh.values() if len(v) > 1)
    sample = None
    for rc3, o in zip(rcs, good):
        outj = open(o + ".tlc").read()
        nrec = sum(1 for _ in open(o))
        m = re.search(r'<<"CONSUMED", (\d+)>>', outj)
        if rc3 != 0 or not m or int(m.group(1)) != nrec:
            raise Inconclusive("TLC did not consume %s: %s" % (o, outj[-1500:]))
        total += nrec
        for (ln, cls, txt) in vlib.verdicts(outj):
            if cls in want:
                res.classify(cls, txt, artefact={"file": os.path.basename(o), "line": ln})
        if sample is None:
            with open(o) as fh:
                ls = fh.readlines()
                sample = _json.loads(ls[len(ls) // 2])
    log("mode S (monitor): %d replays of %d stimulus orders (length <= %d; %d orders with more than one allowed history)" % (total, len(beh), n, multi))
    return {"orders": len(beh), "replays": total, "maxlen": n, "states": states, "generated": gen, "orders_with_choice": multi, "sample": sample}



def run_modes_mon(res, tier, want):
    """Both handler kinds: every callback registered, and a HandlerBuilder handler without an update callback."""
    a = run_modes_mon1(res, tier, want, False)
    b = run_modes_mon1(res, tier, want, True)
    a["replays"] += b["replays"]
    a["states"] += b["states"]
    a["generated"] += b["generated"]
    a["without_update_callback"] = {"orders": b["orders"], "replays": b["replays"]}
    return a


def run_modes_tree(res, tier, want):
    """Spec -> code for the pub/sub tree: TLC enumerates every order of {emit, subscribe, clone, close, root stop} (ModeSTree.tla)
    with the predicted observation after every stimulus; the harness replays each order on real publishers and subscriptions."""
    import json as _json
    sc = vlib.scratch()
    h = vlib.build_harness()
    n = 4 if tier == "quick" else 5
    rc, out = vlib.run_tlc("ModeSTree.tla", open(os.path.join(vlib.SPEC, "cfg", "ModeSTree-%d.cfg" % n)).read(), workers=4, heap="6g", timeout=1800)
    if rc != 0 or "No error has been found" not in out:
        raise Inconclusive("ModeSTree.tla (%d): the model is refuted or TLC failed: %s" % (n, out[-2000:]))
    gen, states = vlib.tlc_stats(out)
    bf = os.path.join(sc, "treebeh.ndjson")
    nb = 0
    with open(bf, "w") as f:
        for m in re.finditer(r'<<"BEH", (".*")>>', out):
            f.write(_json.loads(m.group(1)) + "\n")
            nb += 1
    if nb != 8 ** n:
        raise Inconclusive("ModeSTree.tla printed %d behaviours, expected %d" % (nb, 8 ** n))
    nsh = 16
    cmds, outs = [], []
    for s_ in range(nsh):
        o = os.path.join(sc, "modestree-%d.ndjson" % s_)
        outs.append(o)
        cmds.append(([h, "modestree", "-in", bf, "-out", o, "-shards", str(nsh), "-shard", str(s_)], o + ".log", None))
    rcs = vlib.run_parallel(cmds, timeout=2400, maxpar=16)
    good = []
    for rc2, o in zip(rcs, outs):
        lg = open(o + ".log").read()
        if rc2 != 0:
            if "panic" in lg or "fatal error" in lg:
                res.classify("crash", "modestree driver died: " + lg[:1500])
                continue
            raise Inconclusive("modestree driver failed: " + lg[-500:])
        good.append(o)
    dj = vlib.tlc_dir(None)
    cfgp = os.path.join(dj, "m.cfg")
    open(cfgp, "w").write(MODES_CFG)
    tl = [(vlib.tlc_argv(dj, "ModeSTreeRecords.tla", cfgp, workers=1, heap="2g", procs=2), o + ".tlc", {"VT_TRACE": o}, dj) for o in good]
    rcs = vlib.run_parallel(tl, timeout=1800, maxpar=8)
    total = 0
    sample = None
    for rc3, o in zip(rcs, good):
        outj = open(o + ".tlc").read()
        nrec = sum(1 for _ in open(o))
        m = re.search(r'<<"CONSUMED", (\d+)>>', outj)
        if rc3 != 0 or not m or int(m.group(1)) != nrec:
            raise Inconclusive("TLC did not consume %s: %s" % (o, outj[-1500:]))
        total += nrec
        for (ln, cls, txt) in vlib.verdicts(outj):
            if cls in want:
                res.classify(cls, txt, artefact={"file": os.path.basename(o), "line": ln})
        if sample is None:
            with open(o) as fh:
                ls = fh.readlines()
                sample = _json.loads(ls[len(ls) // 2])
    log("mode S (tree): %d stimulus orders of length %d (all shorter ones are their prefixes) replayed on real publishers and subscriptions" % (total, n))
    return {"orders": total, "maxlen": n, "states": states, "generated": gen, "sample": sample}


MODES_CLASSES = {"modes-exists", "ready-too-early", "not-ready", "content-differs", "event-before-ready", "events-differ"}
MODES_CFG = "SPECIFICATION Spec\nINVARIANT Done\nCHECK_DEADLOCK FALSE\n"


def run_modes(res, tier, want):
    """Spec -> code: TLC enumerates every stimulus order (ModeS.tla), the harness replays each on the real
    filterSubscription, TLC compares prediction and observation."""
    import json as _json
    sc = vlib.scratch()
    h = vlib.build_harness()
    n = 4 if tier == "quick" else 6
    total = 0
    states = gen = 0
    samples = []
    for variant in ("imm", "def"):
        d = vlib.tlc_dir(None)
        rc, out = vlib.run_tlc("ModeS.tla", open(os.path.join(vlib.SPEC, "cfg", "ModeS-%s-%d.cfg" % (variant, n))).read(), workers=4, heap="6g", timeout=1800, d=d)
        if rc != 0 or "No error has been found" not in out:
            raise Inconclusive("ModeS.tla (%s, %d): the model is refuted or TLC failed: %s" % (variant, n, out[-2000:]))
        g, dd = vlib.tlc_stats(out)
        gen += g
        states += dd
        beh = os.path.join(sc, "beh-%s.ndjson" % variant)
        nb = 0
        with open(beh, "w") as f:
            for m in re.finditer(r'<<"BEH", (".*")>>', out):
                f.write(_json.loads(m.group(1)) + "\n")
                nb += 1
        expect = sum(6 ** k for k in range(1, n + 1))
        if nb != expect:
            raise Inconclusive("ModeS.tla printed %d behaviours, expected %d" % (nb, expect))
        nsh = 8 if tier == "quick" else 16
        cmds, outs = [], []
        for s in range(nsh):
            o = os.path.join(sc, "modes-%s-%d.ndjson" % (variant, s))
            outs.append(o)
            cmds.append(([h, "modes", "-in", beh, "-out", o, "-shards", str(nsh), "-shard", str(s)], o + ".log", None))
        rcs = vlib.run_parallel(cmds, timeout=2400, maxpar=16)
        good = []
        for rc2, o in zip(rcs, outs):
            lg = open(o + ".log").read()
            if rc2 != 0:
                if "panic" in lg or "fatal error" in lg:
                    res.classify("crash", "modes driver died: " + lg[:1500])
                    continue
                raise Inconclusive("modes driver failed: " + lg[-500:])
            good.append(o)
        dj = vlib.tlc_dir(None)
        cfgp = os.path.join(dj, "m.cfg")
        open(cfgp, "w").write(MODES_CFG)
        tl = [(vlib.tlc_argv(dj, "ModeSRecords.tla", cfgp, workers=1, heap="2g", procs=2), o + ".tlc", {"VT_TRACE": o}, dj) for o in good]
        rcs = vlib.run_parallel(tl, timeout=1800, maxpar=8)
        for rc3, o in zip(rcs, good):
            outj = open(o + ".tlc").read()
            nrec = sum(1 for _ in open(o))
            m = re.search(r'<<"CONSUMED", (\d+)>>', outj)
            if rc3 != 0 or not m or int(m.group(1)) != nrec:
                raise Inconclusive("TLC did not consume %s: %s" % (o, outj[-1500:]))
            total += nrec
            for (ln, cls, txt) in vlib.verdicts(outj):
                if cls in want:
                    res.classify(cls, txt, artefact={"file": os.path.basename(o), "line": ln, "variant": variant})
        with open(good[0]) as fh:
            ls = fh.readlines()
            samples.append(_json.loads(ls[len(ls) // 2]))
    log("mode S: %d stimulus orders (length <= %d, immediate and deferred) replayed on the real filterSubscription" % (total, n))
    return {"orders": total, "maxlen": n, "states": states, "generated": gen, "samples": samples}
