"""Random histories on long-lived caches (C01/C02 part 4), judged by CacheWalk.tla."""
import os, re, json, time
import vlib
from vlib import Inconclusive, log

WALK_CFG = """SPECIFICATION Spec
CONSTANTS
  Keys = {"a", "b", "c", "d"}
  Labels = {0, 1, 2}
  Filters = {"null", "all", "lx1", "lx0", "fnx0", "nlx1", "nsa", "anx0", "anx1", "nsp1", "nsp2", "nnpa", "nnpb", "sel0", "selall"}
INVARIANT Done
CHECK_DEADLOCK FALSE
"""


def run_walks(prop, tier, res, want):
    sc = vlib.scratch()
    h = vlib.build_harness()
    nproc = 8
    walks = 60 if tier == "quick" else 600
    steps = 50
    cmds, files = [], []
    for i in range(nproc):
        out = os.path.join(sc, "walk-%d.ndjson" % i)
        files.append(out)
        cmds.append(([h, "kwalk", "-out", out, "-seed", str(vlib.seed() * 1000 + i), "-walks", str(walks), "-steps", str(steps)], out + ".log", None))
    rcs = vlib.run_parallel(cmds, timeout=900)
    for i, rc in enumerate(rcs):
        if rc == 124:
            raise Inconclusive("kwalk %d timed out" % i)
        if rc != 0:
            log("kwalk %d died (rc=%d); re-running carefully" % (i, rc))
            rc2 = vlib.run_parallel([(cmds[i][0] + ["-careful"], files[i] + ".log2", None)], timeout=1800)[0]
            if rc2 == 0:
                raise Inconclusive("kwalk %d died once but not when re-run" % i)
            lines = [l for l in open(files[i]).read().split("\n") if l.strip()]
            keep = [l for l in lines[:-1] if '"intent":1' not in l]
            if lines and lines[-1].endswith("}"):
                keep.append(lines[-1])
            open(files[i], "w").write("\n".join(keep) + "\n")
    d = vlib.tlc_dir(None)
    cfgp = os.path.join(d, "walk.cfg")
    open(cfgp, "w").write(WALK_CFG)
    tl = [(vlib.tlc_argv(d, "CacheWalk.tla", cfgp, workers=1, heap="2g", procs=2), f + ".tlc", {"VT_TRACE": f}, d) for f in files]
    t0 = time.time()
    rcs = vlib.run_parallel(tl, timeout=1500, maxpar=8)
    total = nontriv = 0
    samples = []
    for i, f in enumerate(files):
        out = open(f + ".tlc").read()
        nrec = sum(1 for _ in open(f))
        m = re.search(r'<<"CONSUMED", (\d+)>>', out)
        if rcs[i] != 0 or not m or int(m.group(1)) != nrec:
            raise Inconclusive("TLC did not consume walk file %s: %s" % (f, out[-1500:]))
        total += nrec
        for (ln, cls, txt) in vlib.verdicts(out):
            if cls in want:
                res.classify(cls, txt, artefact={"walk_file_line": ln, "seed": vlib.seed() * 1000 + i})
        lines = open(f).read().split("\n")
        nontriv += sum(1 for l in lines if '"ev":[[' in l)
        if i == 0:
            samples.append([json.loads(l) for l in lines[1:6] if l.strip()])
    log("walks: TLC judged %d lines of %d walks in %.1fs" % (total, walks * nproc, time.time() - t0))
    return {"walks": walks * nproc, "steps": total - walks * nproc, "nontrivial": nontriv, "samples": samples}
