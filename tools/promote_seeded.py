#!/usr/bin/env python3
"""Builds /verif/seeded/<id>/ (patch.diff, demonstration, meta.json) from the confirmed candidates and the kill matrix."""
import json, os, shutil, glob
V = os.path.dirname(os.path.dirname(os.path.abspath(__file__)))
M = json.load(open(os.path.join(V, "seeded", "MATRIX.json")))
B4 = {}
for bn in ("BASELINE-R4.json", "BASELINE-R5.json", "BASELINE-R6.json", "BASELINE-R7.json"):
    if os.path.exists(os.path.join(V, "seeded", bn)):
        B4.update(json.load(open(os.path.join(V, "seeded", bn))))
n = 0
for d in sorted(glob.glob(os.path.join(V, "seeded", "candidates", "C*-*")) + glob.glob(os.path.join(V, "seeded", "candidates", "R2-*")) + glob.glob(os.path.join(V, "seeded", "candidates", "R3-*")) + glob.glob(os.path.join(V, "seeded", "candidates", "R4-*")) + glob.glob(os.path.join(V, "seeded", "candidates", "R5-*")) + glob.glob(os.path.join(V, "seeded", "candidates", "R6-*")) + glob.glob(os.path.join(V, "seeded", "candidates", "R7-*"))):
    cid = os.path.basename(d)
    conf = os.path.join(d, "confirm.json")
    if not os.path.exists(conf):
        continue
    c = json.load(open(conf))
    if not c.get("confirmed"):
        continue
    meta = json.load(open(os.path.join(d, "meta.json")))
    out = os.path.join(V, "seeded", cid)
    os.makedirs(out, exist_ok=True)
    for f in os.listdir(d):
        if f in ("confirm.json", "meta.json"):
            continue
        shutil.copy(os.path.join(d, f), out)
    det = M.get(cid, {})
    m = {
        "id": cid,
        "property": meta.get("property"),
        "summary": meta.get("summary"),
        "needs_to_manifest": meta.get("needs"),
        "origin": "written by an independent sub-agent that saw only the property text and a scratch worktree of /repo",
        "demonstration": {"file": meta.get("demo_file"), "dest": meta.get("demo_dest"), "cmd": meta.get("demo_cmd")},
        "confirmed_by_me": {
            "how": "tools/confirm_mutant.py in a scratch worktree of /repo (removed afterwards): patch applies; go build ./... with and without -tags verif; unedited repository suite passes with the patch (up to 3 attempts, the suite has 10 ms timing asserts); demonstration fails twice with the patch and passes twice without it",
            "applies": c.get("applies"), "builds": c.get("builds"), "suite_passes_with_patch": c.get("suite_passes_with_patch"),
            "demo_fails_with_patch": c.get("demo_fails_with_patch"), "demo_passes_without_patch": c.get("demo_passes_without_patch"),
        },
        "detected_by": {p: {"exit": r["exit"], "classes": r["classes"]} for p, r in det.items() if isinstance(r, dict)},
        "detection_run": "tools/killmatrix.py: patch applied in a scratch worktree (VERIF_REPO), `./check <property> --tier quick`, VERIF_SEED=1",
    }
    if cid in B4:
        m["detected_before_strengthening"] = {p: {"exit": r["exit"], "classes": r["classes"]} for p, r in B4[cid].items() if isinstance(r, dict)}
    json.dump(m, open(os.path.join(out, "meta.json"), "w"), indent=1)
    n += 1
print("promoted", n)
