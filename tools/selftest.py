#!/usr/bin/env python3
"""Self-test of the binding (not part of quick/thorough): shows that the machinery is sharp.
 (a) every deviation configuration in spec/cfg/deviations (the pinned code before each fix, and seeded design
     deviations) must be REFUTED by TLC at the design level;
 (b) recorded traces / records that are accepted as they are must be REJECTED after one corruption
     (a dropped line, two swapped lines, one changed field).
usage: tools/selftest.py      exit 0 iff every expectation is met"""
import os, sys, json, re, shutil, random, glob, subprocess
sys.path.insert(0, os.path.dirname(os.path.abspath(__file__)))
import vlib
import fam_tree, fam_kernel, fam_filters

ok = True


def expect(cond, what):
    global ok
    print(("PASS " if cond else "FAIL ") + what, flush=True)
    ok = ok and cond


def deviations():
    for cfg in sorted(glob.glob(os.path.join(vlib.SPEC, "cfg", "deviations", "*.cfg"))):
        module = os.path.basename(cfg).split("-")[0]
        d = vlib.tlc_dir(None)
        rc, out = vlib.run_tlc(module + ".tla", open(cfg).read(), workers=4, heap="6g", timeout=900, d=d)
        refuted = ("is violated" in out or "was violated" in out or "were violated" in out) and "No error has been found" not in out
        what = re.findall(r"(?:Invariant|Temporal property) (\w+) (?:is|was) violated", out)
        expect(refuted, "deviation %s refuted by TLC (%s)" % (os.path.basename(cfg), ",".join(what) or "?"))
    # D7 at the design level: requiring the reference for lists with duplicate keys refutes the algorithm of cache.go
    cfgt = fam_kernel.mc_cfg(fam_kernel.UNIVERSE["quick"]).replace("StrictDup = FALSE", "StrictDup = TRUE")
    rc, out = vlib.run_tlc("MCCache.tla", cfgt, workers=4, heap="6g", timeout=900)
    expect("Assert" in out or "violated" in out or "Error" in out and "No error has been found" not in out, "MCCache with StrictDup = TRUE refuted (known finding D7 is visible in the model)")


def proofs():
    for name in ("MonitorProofs", "FilterNodeProofs", "JoinProofs", "TypedProofs"):
        r = vlib.prove(name)
        expect("obligations proved" in r, "TLAPS: " + r[:120])


def judge_tree(path):
    d = vlib.tlc_dir(None)
    cfgp = os.path.join(d, "t.cfg")
    open(cfgp, "w").write(fam_tree.CFG)
    rcs = vlib.run_parallel([(vlib.tlc_argv(d, "TreeTrace.tla", cfgp, workers=1, heap="2g"), path + ".tlc", {"VT_TRACE": path}, d)], timeout=600)
    out = open(path + ".tlc").read()
    return [v for v in vlib.verdicts(out) if v[1] != "not-quiescent"], "CONSUMED" in out


def trace_corruptions():
    h = vlib.build_harness()
    sc = vlib.scratch()
    base = os.path.join(sc, "self-tree.ndjson")
    rc, so, se = vlib.run_harness(["tree", "-out", base, "-count", "3", "-seed", "77", "-variant", "mixed", "-events", "60"])
    expect(rc == 0, "harness produced a tree trace")
    v, consumed = judge_tree(base)
    expect(consumed and not v, "unmodified trace accepted (%d lines)" % sum(1 for _ in open(base)))
    lines = open(base).read().split("\n")
    rnd = random.Random(5)

    def variant(name, fn):
        ls = list(lines)
        if not fn(ls):
            expect(False, "corruption %s could not be applied" % name)
            return
        p = os.path.join(sc, "self-%s.ndjson" % name)
        open(p, "w").write("\n".join(ls))
        v, consumed = judge_tree(p)
        expect(bool(v), "corrupted trace (%s) rejected: %s" % (name, sorted(set(x[1] for x in v))[:4]))

    def idx(pred, nth=5):
        c = [i for i, l in enumerate(lines) if l and pred(json.loads(l))]
        return c[min(nth, len(c) - 1)] if c else None

    def drop_subin(ls):
        i = idx(lambda r: r["e"] == "sub.in")
        if i is None: return False
        del ls[i]; return True

    def swap_recv(ls):
        c = [i for i, l in enumerate(lines) if l and json.loads(l)["e"] == "recv"]
        for a in range(len(c) - 1):
            ra, rb = json.loads(lines[c[a]]), json.loads(lines[c[a + 1]])
            if ra["a"] == rb["a"] and ra["ev"] != rb["ev"]:
                ls[c[a]], ls[c[a + 1]] = ls[c[a + 1]], ls[c[a]]; return True
        return False

    def change_version(ls):
        i = idx(lambda r: r["e"] == "recv")
        if i is None: return False
        r = json.loads(ls[i]); r["ev"]["o"]["v"] += 1000; ls[i] = json.dumps(r); return True

    def drop_cache_update(ls):
        i = idx(lambda r: r["e"] == "cache.update" and r["x"][1])
        if i is None: return False
        del ls[i]; return True

    def dup_pub_event(ls):
        i = idx(lambda r: r["e"] == "pub.event")
        if i is None: return False
        ls.insert(i, ls[i]); return True

    def early_ready(ls):
        i = idx(lambda r: r["e"] == "ctl.ready", 0)
        j = idx(lambda r: r["e"] == "ctl.synced", 0)
        if i is None or j is None or j > i: return False
        ls[i], ls[j] = ls[j], ls[i]; return True

    variant("drop-sub.in", drop_subin)
    variant("swap-two-receipts", swap_recv)
    variant("change-received-version", change_version)
    variant("drop-cache.update", drop_cache_update)
    variant("duplicate-pub.event", dup_pub_event)
    variant("ready-before-sync", early_ready)


def record_corruptions():
    h = vlib.build_harness()
    sc = vlib.scratch()
    # kernel record with a wrong post-state
    p = os.path.join(sc, "self-kernel.ndjson")
    rc, so, se = vlib.run_harness(["kernel", "-out", p, "-shards", "64", "-shard", "3", "-versions", "-99,0,1", "-filters", "null,lx1"])
    ls = [l for l in open(p).read().split("\n") if l]
    r = json.loads(ls[40])
    r["post"]["a"] = [1, 1, 1] if r["post"]["a"] != [1, 1, 1] else [0, 0, 0]
    ls[40] = json.dumps(r)
    open(p, "w").write("\n".join(ls[:200]) + "\n")
    d = vlib.tlc_dir(None)
    cfgp = os.path.join(d, "r.cfg")
    open(cfgp, "w").write(fam_kernel.REC_CFG % '{"a", "b"}')
    vlib.run_parallel([(vlib.tlc_argv(d, "CacheRecords.tla", cfgp, workers=1, heap="2g"), p + ".tlc", {"VT_TRACE": p}, d)], timeout=300)
    v = [x for x in vlib.verdicts(open(p + ".tlc").read()) if x[1] != "dupkey-older-accepted-survives"]
    expect(bool(v), "kernel record with a corrupted post-state rejected: %s" % sorted(set(x[1] for x in v)))
    # filter record with one flipped Accept bit
    p = os.path.join(sc, "self-filters.ndjson")
    vlib.run_harness(["filters", "-mode", "comb", "-out", p, "-noeq"])
    ls = [l for l in open(p).read().split("\n") if l][:60]
    r = json.loads(ls[30]); r["acc"][7] = 1 - r["acc"][7]; r["acc2"][7] = 1 - r["acc2"][7]; ls[30] = json.dumps(r)
    open(p, "w").write("\n".join(ls) + "\n")
    n, verd = fam_filters.judge(p, 1)
    expect(any(x[1] in ("accept", "workload-selection") for x in verd), "filter record with a flipped Accept bit rejected")
    # Mode S records: one changed field in the observation
    def judge_records(module, path):
        dj = vlib.tlc_dir(None)
        cfgp2 = os.path.join(dj, "m.cfg")
        open(cfgp2, "w").write(fam_tree.MODES_CFG)
        vlib.run_parallel([(vlib.tlc_argv(dj, module, cfgp2, workers=1, heap="2g"), path + ".tlc", {"VT_TRACE": path}, dj)], timeout=300)
        return vlib.verdicts(open(path + ".tlc").read())
    tb = os.path.join(sc, "self-treebeh.ndjson")
    open(tb, "w").write('{"stim":["SB0","EM","CL0","SB1"],"hist":[]}\n')
    p = os.path.join(sc, "self-modestree.ndjson")
    vlib.run_harness(["modestree", "-in", tb, "-out", p])
    r = json.loads(open(p).read().split("\n")[0])
    r["pred"] = json.loads(json.dumps(r["obs"]))          # the real observation as the prediction: accepted
    open(p, "w").write(json.dumps(r) + "\n")
    expect(not judge_records("ModeSTreeRecords.tla", p), "mode S tree record accepted as recorded (observation = prediction)")
    r["obs"][1]["nodes"][0]["log"] = []                    # the first subscriber lost the event
    open(p, "w").write(json.dumps(r) + "\n")
    v = judge_records("ModeSTreeRecords.tla", p)
    expect(any(x[1] == "tree-log-differs" for x in v), "mode S tree record with a lost event rejected")
    r["obs"][1]["nodes"][0]["log"] = [1]
    r["obs"][3]["nodes"][1]["done"] = True                 # a clone that stopped without being closed
    open(p, "w").write(json.dumps(r) + "\n")
    v = judge_records("ModeSTreeRecords.tla", p)
    expect(any(x[1] == "tree-done-differs" for x in v), "mode S tree record with a node stopped by itself rejected")
    mb = os.path.join(sc, "self-monbeh.ndjson")
    open(mb, "w").write('{"stim":["SR","PB","RL"],"preds":[[{"cb":[0],"active":true,"done":false},{"cb":[0],"active":true,"done":false},{"cb":[0,1],"active":true,"done":false}]]}\n')
    p = os.path.join(sc, "self-modesmon.ndjson")
    vlib.run_harness(["modesmon", "-in", mb, "-out", p])
    expect(not judge_records("ModeSMonRecords.tla", p), "mode S monitor record accepted as recorded")
    r = json.loads(open(p).read().split("\n")[0])
    r["obs"][2]["cb"] = [0, 1, 1]
    open(p, "w").write(json.dumps(r) + "\n")
    v = judge_records("ModeSMonRecords.tla", p)
    expect(bool(v), "mode S monitor record with a repeated callback rejected: %s" % sorted(set(x[1] for x in v)))


if __name__ == "__main__":
    deviations()
    proofs()
    trace_corruptions()
    record_corruptions()
    print("SELFTEST " + ("OK" if ok else "FAILED"))
    sys.exit(0 if ok else 1)
