#!/usr/bin/env python3
"""One-shot helper used to create the add-only hook commit in /repo (kept for the record)."""
import sys,re,os
R='/repo/'
def ins_after(path, anchor, line, count=1, nth=None):
    s=open(R+path).read()
    idxs=[m.start() for m in re.finditer(re.escape(anchor), s)]
    assert idxs, (path, anchor)
    if nth is not None: idxs=[idxs[nth]]
    elif count!='all': assert len(idxs)==count, (path, anchor, len(idxs))
    for i in reversed(idxs):
        e=i+len(anchor)
        if anchor.endswith('\n'): e-=1
        # indentation = that of the anchor's last line unless the line given has its own
        s=s[:e]+"\n"+line+s[e:]
    open(R+path,'w').write(s)
def ins_before(path, anchor, line, count=1, nth=None):
    s=open(R+path).read()
    idxs=[m.start() for m in re.finditer(re.escape(anchor), s)]
    assert idxs, (path, anchor)
    if nth is not None: idxs=[idxs[nth]]
    elif count!='all': assert len(idxs)==count, (path, anchor, len(idxs))
    for i in reversed(idxs):
        # go to line start
        ls=s.rfind("\n",0,i)+1
        s=s[:ls]+line+"\n"+s[ls:]
    open(R+path,'w').write(s)

# ---------------- cache.go
ins_before('cache.go', "\tgo c.lc.WatchContext(ctx)\n\tgo c.lc.WatchChannel(stopch)\n\tgo c.run()", '\tverifTrace(c, "cache.new", filter)')
ins_after('cache.go', "\t\tcase request := <-c.getch:", '\t\t\tverifTrace(c, "cache.get", request.key.namespace, request.key.name, c.items[request.key].object)')
ins_before('cache.go', "\treturn result\n}\n\nfunc (c *_cache) doSync", '\tverifTrace(c, "cache.list", result)')
ins_before('cache.go', "\treturn events\n}\n\nfunc (c *_cache) doRefilter", '\tverifTrace(c, "cache.sync", list, events)')
ins_after('cache.go', "\tc.filter = filter", '\tverifTrace(c, "cache.filter", filter)', nth=0)
ins_before('cache.go', "\t\treturn events\n\t}\n\n\tkey := cacheKey{obj.GetNamespace(), obj.GetName()}", '\t\tverifTrace(c, "cache.update", evt, events)')
ins_before('cache.go', "\treturn events\n}\n\nfunc (c *_cache) createKey", '\tverifTrace(c, "cache.update", evt, events)')
ins_after('cache.go', "\t\tcase err := <-c.lc.ShutdownRequest():", '\t\t\tverifTrace(c, "cache.stopping", err)')

# ---------------- builder.go
ins_before('builder.go', "\tgo c.lc.WatchContext(c.ctx)", '\tverifTrace(c, "ctl.new", cache, subscription, publisher, c.lister, c.watcher, b.filter)')

# ---------------- controller.go
s=open(R+'controller.go').read()
out=[]
for ln in s.split("\n"):
    m=re.match(r'^(\s*)c\.lc\.ShutdownInitiated\((.*)\)$', ln)
    if m:
        out.append('%sverifTrace(c, "ctl.stopping", %s)'%(m.group(1), m.group(2)))
    out.append(ln)
open(R+'controller.go','w').write("\n".join(out))
ins_before('controller.go', '\t\t\tc.log.Debugf("list complete: version', '\t\t\tverifTrace(c, "ctl.synced", version, list, events, initialized)')
ins_before('controller.go', "\t\t\t\tclose(c.readych)", '\t\t\t\tverifTrace(c, "ctl.ready")')
ins_before('controller.go', "\t\t\tc.distributeEvents(events)\n\t\t}\n\t}\n", '\t\t\tverifTrace(c, "ctl.updated", evt, events)')
ins_after('controller.go', "\t\tcase evt := <-c.watcher.events():", '\t\t\tverifTrace(c, "ctl.event", evt)')
ins_after('controller.go', "\t\tcase result := <-c.lister.Result():\n", '\t\t\tverifTrace(c, "ctl.list", result.list, result.err)')
ins_before('controller.go', "\t\t\tif err := c.watcher.reset(version); err != nil {", '\t\t\tverifTrace(c, "ctl.distributed", version)')
ins_after('controller.go', "\t<-c.cache.Done()\n\t<-c.watcher.Done()\n\t<-c.lister.Done()", '\tverifTrace(c, "ctl.done")')

# ---------------- lister.go
ins_before('lister.go', "\tgo l.lc.WatchContext(ctx)\n\tgo l.lc.WatchChannel(stopch)\n\n\tgo l.run()", '\tverifTrace(l, "lister.new", period)')
ins_after('lister.go', "\tticker := newTicker(l.period, defaultRefreshFuzz)", '\tverifTrace(l, "lister.ticker", ticker)')
ins_after('lister.go', "\t\tcase <-tickch:", '\t\t\tverifTrace(l, "lister.tick")')
ins_after('lister.go', "\t\tcase result = <-runch:", '\t\t\tverifTrace(l, "lister.result", result.list, result.err)')
ins_after('lister.go', "\t\tcase resultch <- result:", '\t\t\tverifTrace(l, "lister.delivered")')
ins_after('lister.go', "\t\tcase err := <-l.lc.ShutdownRequest():", '\t\t\tverifTrace(l, "lister.stopping", err)')
ins_after('lister.go', "\tdonech := make(chan struct{})\n\tctx, cancel := context.WithCancel(l.ctx)", '\tverifTrace(l, "lister.list")')
ins_after('lister.go', "\tticker.Stop()\n\t<-ticker.Done()\n\t<-donech", '\tverifTrace(l, "lister.done")')

# ---------------- ticker.go
ins_before('ticker.go', "\tgo t.run()", '\tverifTrace(t, "ticker.new", period)')
ins_after('ticker.go', "\t\tcase <-t.resetch:", '\t\t\tverifTrace(t, "ticker.reset")')
ins_after('ticker.go', "\t\tcase <-t.stopch:", '\t\t\tverifTrace(t, "ticker.stop")')
ins_after('ticker.go', "\t\tcase <-timer.C:\n", '\t\t\tverifTrace(t, "ticker.fire")', nth=-1)
ins_after('ticker.go', "\t\tcase nextch <- count:", '\t\t\tverifTrace(t, "ticker.next", count)')

# ---------------- watcher.go
ins_before('watcher.go', "\tgo w.lc.WatchContext(ctx)\n\tgo w.lc.WatchChannel(stopch)\n\tgo w.run()", '\tverifTrace(w, "watcher.new")')
ins_after('watcher.go', "\t\tcase err := <-w.lc.ShutdownRequest():", '\t\t\tverifTrace(w, "watcher.stopping", err)')
ins_after('watcher.go', "\t\t\tcurVersion = vsn", '\t\t\tverifTrace(w, "watcher.reset", vsn, session)')
ins_after('watcher.go', "\t\tcase <-session.done():", '\t\t\tverifTrace(w, "watcher.sessiondone", curVersion, session)')
ins_after('watcher.go', "\t\t\tsession = newWatchSession(ctx, w.log, w.client, curVersion)", '\t\t\tverifTrace(w, "watcher.retry", curVersion, session)')
ins_after('watcher.go', "\t\tcase evt := <-session.events():\n", '\t\t\tverifTrace(w, "watcher.in", evt, session)')
ins_after('watcher.go', "\t\t\tdefault:", '\t\t\t\tverifTrace(w, "watcher.drop", evt)')
ins_after('watcher.go', "\t\tcase reqch := <-w.evtch:", '\t\t\tverifTrace(w, "watcher.events", outch != nil)')
ins_after('watcher.go', "\tif donech := session.done(); donech != nil {\n\t\t<-donech\n\t}", '\tverifTrace(w, "watcher.done")')

# ---------------- watch_session.go
ins_before('watch_session.go', "\tgo lc.WatchContext(ctx)\n\tgo s.run()", '\tverifTrace(s, "session.new", version)')
s=open(R+'watch_session.go').read()
out=[]
for ln in s.split("\n"):
    m=re.match(r'^(\s*)s\.lc\.ShutdownInitiated\((.*)\)$', ln)
    if m:
        out.append('%sverifTrace(s, "session.end", %s)'%(m.group(1), m.group(2)))
    out.append(ln)
open(R+'watch_session.go','w').write("\n".join(out))
ins_before('watch_session.go', "\tdefer conn.Stop()", '\tverifTrace(s, "session.connected", s.version)')
ins_after('watch_session.go', "\t\tcase kevt, ok := <-conn.ResultChan():\n", '\t\t\tverifTrace(s, "session.frame", ok, kevt)')
ins_before('watch_session.go', "\t\t\tselect {\n\t\t\tcase s.outch <- evt:", '\t\t\tverifTrace(s, "session.in", evt)')
ins_after('watch_session.go', "\t\t\tdefault:", '\t\t\t\tverifTrace(s, "session.drop", evt)')

# ---------------- publisher.go
ins_before('publisher.go', "\tgo s.run()", '\tverifTrace(s, "pub.new", parent)')
ins_before('publisher.go', "\t\t\t\ts.lc.ShutdownInitiated(nil)", '\t\t\t\tverifTrace(s, "pub.stopping")')
ins_after('publisher.go', "\t\tcase sub := <-s.unsubscribech:", '\t\t\tverifTrace(s, "pub.unsubscribe", sub)', count=2)
ins_after('publisher.go', "func (s *publisher) distributeEvent(evt Event) {", '\tverifTrace(s, "pub.event", evt)')
ins_after('publisher.go', "\ts.subscriptions[sub] = struct{}{}", '\tverifTrace(s, "pub.subscribe", sub)')
ins_after('publisher.go', "\t<-s.parent.Done()", '\tverifTrace(s, "pub.done")')

# ---------------- subscription.go
ins_before('subscription.go', "\tgo s.lc.WatchChannel(stopch)", '\tverifTrace(s, "sub.new", cache)')
ins_after('subscription.go', "\t\tcase err := <-s.lc.ShutdownRequest():", '\t\t\tverifTrace(s, "sub.stopping", err)')
ins_after('subscription.go', "\t\tcase evt := <-s.inch:", '\t\t\tverifTrace(s, "sub.in", evt)')
ins_after('subscription.go', "\t\t\tdefault:", '\t\t\t\tverifTrace(s, "sub.drop", evt)')

# ---------------- subscription_filter.go
ins_before('subscription_filter.go', "\tgo s.run()", '\tverifTrace(s, "fsub.new", parent, s.cache, f, deferReady)')
s=open(R+'subscription_filter.go').read()
out=[]
for ln in s.split("\n"):
    m=re.match(r'^(\s*)s\.lc\.ShutdownInitiated\((.*)\)$', ln)
    if m:
        out.append('%sverifTrace(s, "fsub.stopping", %s)'%(m.group(1), m.group(2)))
    m=re.match(r'^(\s*)close\(s\.readych\)$', ln)
    if m:
        out.append('%sverifTrace(s, "fsub.ready")'%(m.group(1)))
    out.append(ln)
open(R+'subscription_filter.go','w').write("\n".join(out))
ins_after('subscription_filter.go', "\t\tcase <-preadych:\n", '\t\t\tverifTrace(s, "fsub.pready", pending)')
ins_before('subscription_filter.go', '\t\t\ts.log.Debugf("parent ready: making ready")', '\t\t\tverifTrace(s, "fsub.synced", list)')
ins_after('subscription_filter.go', "\t\t\tisNew := !filter.FiltersEqual(s.filter, f)", '\t\t\tverifTrace(s, "fsub.refilter", f, isNew, preadych != nil, ready, pending)')
ins_before('subscription_filter.go', '\t\t\t\ts.log.Debugf("refilter: deferring ready (filter changed)")', '\t\t\t\tverifTrace(s, "fsub.refiltered", nil, nil)')
ins_before('subscription_filter.go', '\t\t\ts.filter = f\n\n\t\t\tif !ready {', '\t\t\tverifTrace(s, "fsub.refiltered", list, events)')
ins_after('subscription_filter.go', "\t\tcase evt, ok := <-s.parent.Events():\n", '\t\t\tverifTrace(s, "fsub.in", evt, ok, ready)')
ins_before('subscription_filter.go', '\t\t\ts.log.Debugf("update: %v events", len(events))', '\t\t\tverifTrace(s, "fsub.updated", evt, events)')
ins_before('subscription_filter.go', "\t\tselect {\n\t\tcase s.outch <- evt:", '\t\tverifTrace(s, "fsub.out", evt)')
ins_after('subscription_filter.go', "\t\tdefault:", '\t\t\tverifTrace(s, "fsub.drop", evt)')
ins_before('subscription_filter.go', "\tclose(s.outch)\n\n\t<-s.parent.Done()", '\tverifTrace(s, "fsub.closed")')

# ---------------- monitor.go
ins_before('monitor.go', "\tgo m.run()", '\tverifTrace(m, "mon.new", sub)')
s=open(R+'monitor.go').read()
out=[]
for ln in s.split("\n"):
    m=re.match(r'^(\s*)m\.lc\.ShutdownInitiated\((.*)\)$', ln)
    if m:
        out.append('%sverifTrace(m, "mon.stopping", %s)'%(m.group(1), m.group(2)))
    out.append(ln)
open(R+'monitor.go','w').write("\n".join(out))
