#!/usr/bin/env python3
"""Runs the registered quick checks against every seeded change in a scratch worktree of /repo
(VERIF_REPO), never in /repo itself, and records which check detects which change.
usage: killmatrix.py [--only ID,ID] [--tier quick]   -> writes seeded/<id>/{patch.diff,demo,meta.json} and seeded/MATRIX.json"""
import json, os, subprocess, sys, shutil, tempfile, time, glob, re

V = os.path.dirname(os.path.dirname(os.path.abspath(__file__)))
CAND = os.path.join(V, "seeded", "candidates")
# which properties to run per candidate (the property it was written for, plus neighbours that share the mechanism)
EXTRA = {"R3-C05-1": ["C05", "C03"], "R3-C05-2": ["C05", "C03", "C02"], "R3-C07-1": ["C07", "C18"], "R3-C07-2": ["C07", "C17"], "R3-C12-2": ["C12", "C09"],
         "R3-C04-1": ["C04", "C01"], "R3-C03-2": ["C03", "C01"], "R3-C08-1": ["C08", "C07"], "R3-C10-2": ["C10", "C06"], "R2-C12-1b": ["C12", "C03"], "R2-C12-2b": ["C12", "C11"], "R2-C05-1": ["C05", "C03", "C02"], "R2-C05-2": ["C05", "C02"], "R2-C06-1": ["C06", "C05"],
         "R2-C09-1": ["C09", "C07"], "R2-C09-2": ["C09", "C16"], "R2-C16-2": ["C16", "C20"], "R2-C03-2": ["C03", "C12"], "R2-C13-2": ["C13", "C12"],
         "R2-C14-2": ["C14", "C04"], "R2-C08-2": ["C08", "C09"], "R2-C11-1": ["C11", "C12"], "R2-C10-1": ["C10", "C06"], "C02-2": ["C05"], "C02-3": ["C05", "C06"], "C10-3": ["C16"], "C11-2": ["C10", "C11"], "C16-3": ["C16", "C20"], "C07-1": ["C07", "C17"],
         "R4-C08-1": ["C08", "C17"], "R4-C08-2": ["C08", "C03", "C14"], "R4-C04-1": ["C04", "C01", "C02"], "R4-C03-2": ["C03", "C15"], "R4-C12-2": ["C12", "C11", "C16"],
         "R4-C11-1": ["C11", "C16"], "R4-C05-2": ["C05", "C03"], "R4-C16-2": ["C16", "C20"], "R4-C20-2": ["C20", "C09"], "R4-C06-1": ["C06", "C08"], "R4-C07-1": ["C07", "C17"],
         "R4-C07-2": ["C07", "C17", "C18"], "R4-C02-2": ["C02", "C01"], "R4-C09-2": ["C09", "C11", "C12"], "R4-C10-1": ["C10", "C06"], "R4-C11-2": ["C11", "C14", "C12"], "R4-C14-2": ["C14", "C04"],
         "R4-C01-1": ["C01", "C02"], "R4-C02-1": ["C02", "C01"], "R4-C06-2": ["C06", "C05"], "R4-C15-2": ["C15", "C03"],
         "R5-C01-1": ["C01", "C15"], "R5-C01-2": ["C01", "C02"], "R5-C02-1": ["C02", "C06"], "R5-C02-2": ["C02", "C10"], "R5-C03-1": ["C03", "C02"], "R5-C04-2": ["C04", "C03"],
         "R5-C13-1": ["C13", "C12"], "R5-C05-1": ["C05", "C03", "C02"], "R5-C05-2": ["C05", "C03", "C01"], "R5-C06-1": ["C06", "C01"], "R5-C06-2": ["C06", "C08", "C09"],
         "R5-C07-1": ["C07", "C17"], "R5-C07-2": ["C07", "C01"], "R5-C10-1": ["C10", "C06"], "R5-C10-2": ["C10", "C11"], "R5-C11-1": ["C11", "C05"], "R5-C11-2": ["C11", "C09", "C12"],
         "R5-C12-2": ["C12", "C04"], "R5-C14-2": ["C14", "C04"], "R5-C16-2": ["C16", "C20"], "R5-C09-2": ["C09", "C08"], "R5-C19-1": ["C19", "C17"],
         "R6-C03-1": ["C03", "C13"], "R6-C06-1": ["C06", "C01"], "R6-C09-1": ["C09", "C08"], "R6-C12-1": ["C12", "C13"], "R6-C14-1": ["C14", "C04"], "R6-C16-1": ["C16", "C20"], "R6-C05-1": ["C05", "C11"],
         "R7-C02-1": ["C02", "C01"], "R7-C07-1": ["C07", "C06"], "R7-C15-1": ["C15", "C06"], "R7-C06-1": ["C06", "C02"], "R7-C09-1": ["C09", "C12"],
         "revert-D1": ["C01"], "revert-D2": ["C13", "C12"], "revert-D3": ["C04"], "revert-D4": ["C03", "C12"], "revert-D5": ["C09"]}


def sh(cmd, cwd=None, env=None, timeout=3000):
    p = subprocess.run(cmd, shell=True, cwd=cwd, env=env, stdout=subprocess.PIPE, stderr=subprocess.STDOUT, text=True, timeout=timeout)
    return p.returncode, p.stdout


def main():
    only = None
    prefix = None
    if "--prefix" in sys.argv:
        prefix = sys.argv[sys.argv.index("--prefix") + 1]
    if "--only" in sys.argv:
        only = sys.argv[sys.argv.index("--only") + 1].split(",")
    wt = tempfile.mkdtemp(prefix="km-repo-", dir="/tmp")
    os.rmdir(wt)
    rc, out = sh("git -C /repo worktree add -q --detach %s HEAD" % wt)
    assert rc == 0, out
    matrix = {}
    mp = os.path.join(V, "seeded", "MATRIX.json")
    if os.path.exists(mp):
        matrix = json.load(open(mp))
    try:
        for d in sorted(glob.glob(os.path.join(CAND, "*"))):
            cid = os.path.basename(d)
            if cid.startswith("_") or (only and cid not in only) or (prefix and not cid.startswith(prefix)):
                continue
            patch = os.path.join(d, "patch.diff")
            props = []
            m = re.search(r"(C\d\d)-\d", cid)
            if m:
                props.append(m.group(1))
            for p in EXTRA.get(cid, []):
                if p not in props:
                    props.append(p)
            sh("git checkout -q -- . && git clean -fdq", cwd=wt)
            rc, out = sh("git apply %s" % patch, cwd=wt)
            if rc != 0:
                matrix[cid] = {"error": "patch does not apply: " + out[-300:]}
                continue
            res = {}
            for p in props:
                env = dict(os.environ, VERIF_REPO=wt, VERIF_SEED=os.environ.get("VERIF_SEED", "1"), VERIF_EVIDENCE_DIR="/tmp/km-evidence", VERIF_REPLAY_DIR="/tmp/km-replays")
                t0 = time.time()
                rc, out = sh("./check %s --tier quick" % p, cwd=V, env=env)
                cls = sorted(set(re.findall(r"class=([A-Za-z0-9-]+)", out)))
                res[p] = {"exit": rc, "classes": cls[:6], "wall_s": round(time.time() - t0, 1)}
                print(cid, p, "exit=%d" % rc, cls[:4], flush=True)
            matrix[cid] = res
            json.dump(matrix, open(mp, "w"), indent=1, sort_keys=True)
    finally:
        sh("git -C /repo worktree remove --force %s" % wt)
        shutil.rmtree(wt, ignore_errors=True)
    # evidence files were overwritten by mutant runs: they are regenerated by the next clean run


if __name__ == "__main__":
    main()
