#!/usr/bin/env python3
"""Regenerates /verif/MANIFEST.json from the table below (single source for the interface file)."""
import json, os, subprocess
V = os.path.dirname(os.path.dirname(os.path.abspath(__file__)))

HOOK_COMMITS = ["c3d733f"]

CHECKS = {
 "C01": dict(cat="model_checking", engine="kernel", design="5 C01, 3.1",
   technique="TLA+ reference semantics (CacheKernel.tla) model-checked with TLC against a transcription of cache.go; every transition of the universe executed on the real cache and judged by TLC (trace/CacheRecords.tla), plus random histories judged statefully (trace/CacheWalk.tla)",
   text="TLC checks exhaustively, from every reachable (filter, content) state of a 2-key x 5..8-version (incl. negative, zero, non-numeric) x 2-label x 4-filter universe and for every sync/refilter list of length <= 2 and every create/update/delete event, that the algorithm of cache.go yields exactly the content the reference semantics of C01 prescribes. The same universe of transitions (251k quick / 1.6M thorough) is executed on the real cache actor; List(), Get(k) and the returned events of every transition are judged by TLC against the same reference, so a code change is seen as a rejected record. Random 50-step histories on long-lived caches over a larger universe are validated against the spec's own running state. Crashes and wedges of the cache goroutine are captured as records that no spec action allows.",
   note="Trusted: TLC, the Json community module, the harness' projection of real objects to (key, version, label x). The reference semantics is written from the property text. Deviations with signature D7 (duplicate keys in one list, see known_findings.json) are reported as KNOWN-FINDING; everything else is a violation."),
 "C02": dict(cat="model_checking", engine="kernel", design="5 C02, 3.1",
   technique="TLA+ EventsOK (sequential replay of the emitted batch is well-formed, ends in the post-state, no event for an unchanged key) checked by TLC on the model and on every recorded transition of the real cache",
   text="Same exhaustive universe and the same recorded transitions as C01; for each one TLC replays the events the real cache returned on the recorded pre-content and requires Create only on absent keys, Update only on present keys with a strictly newer version, Delete only on present keys, the replay to end exactly in the observed post-content, and no event for a key whose entry did not change. Minimality for redelivered / stale / rejected inputs and unchanged relists is therefore decided for every input of the universe, not for samples.",
   note="Trusted: as C01. Event order inside one batch is free as long as the replay is well-formed (the property says so). System-level mirror checks (a subscriber replaying events equals the cache) belong to the controller/tree families."),
}

NOT_YET = {
}

def main():
    props = [json.loads(l) for l in open(os.path.join(V, "properties.jsonl"))]
    checks = []
    for p in props:
        pid = p["id"]
        if pid not in CHECKS:
            continue
        c = CHECKS[pid]
        checks.append({
            "property_id": pid,
            "quick_cmd": "./check %s --tier quick" % pid,
            "thorough_cmd": "./check %s --tier thorough" % pid,
            "evidence_file": "/verif/evidence/%s.json" % pid,
            "replay_cmd_template": "./check %s --replay {path}" % pid,
            "engine": c["engine"],
            "level_claimed": {"category": c["cat"], "text": c["text"], "design_ref": "DESIGN.md section " + c["design"]},
            "level_note": c["note"],
            "technique": c["technique"],
        })
    na = [{"property_id": p["id"], "reason": NOT_YET.get(p["id"], "check not built yet in this revision of /verif (work in progress; see DESIGN.md section 9 for the order of construction)")}
          for p in props if p["id"] not in CHECKS]
    m = {
        "version": 1,
        "setup_cmd": "./setup.sh",
        "hooks": {
            "guard": "verif",
            "enable": "go build -tags verif (the harness module in /verif/harness replaces github.com/boz/kcache with /repo and is always built with -tags verif)",
            "baseline_off_cmd": "cd /repo && GOFLAGS=-mod=mod GOPROXY=off GOSUMDB=off GOTOOLCHAIN=local go test -vet=off -count=1 ./...",
            "source_commits": HOOK_COMMITS,
            "add_only": True,
        },
        "engines": [
            {"name": "kernel", "path": "/verif/spec/CacheKernel.tla /verif/spec/MCCache.tla /verif/spec/trace/CacheJudge.tla /verif/spec/trace/CacheRecords.tla /verif/spec/trace/CacheWalk.tla /verif/harness/kernel.go /verif/harness/kwalk.go /verif/tools/fam_kernel.py",
             "serves_properties": ["C01", "C02"], "kind_free_text": "TLC model checking of the cache kernel + exhaustive transition recording from the real cache actor judged by TLC"},
        ],
        "checks": checks,
        "not_applicable": na,
        "notes": "All verdicts are TLC verdicts over records/traces of the real code built from /repo's working tree with -tags verif; exit 2 = inconclusive machinery, never a violation. known_findings.json lists recorded (open) defects and the repaired ones.",
    }
    json.dump(m, open(os.path.join(V, "MANIFEST.json"), "w"), indent=1)
    print("MANIFEST.json: %d checks, %d not_applicable" % (len(checks), len(na)))

if __name__ == "__main__":
    main()
