#!/usr/bin/env python3
"""Regenerates /verif/MANIFEST.json from the table below (single source for the interface file)."""
import json, os, subprocess
V = os.path.dirname(os.path.dirname(os.path.abspath(__file__)))

HOOK_COMMITS = ["c3d733f", "14b2aa7"]

CHECKS = {
 "C01": dict(cat="model_checking", engine="kernel", design="5 C01, 3.1",
   technique="TLA+ reference semantics (CacheKernel.tla) model-checked with TLC against a transcription of cache.go; every transition of the universe executed on the real cache and judged by TLC (trace/CacheRecords.tla), plus random histories judged statefully (trace/CacheWalk.tla)",
   text="TLC checks exhaustively, from every reachable (filter, content) state of a 2-key x 5..8-version (incl. negative, zero, non-numeric) x 2-label x 4-filter universe and for every sync/refilter list of length <= 2 and every create/update/delete event, that the algorithm of cache.go yields exactly the content the reference semantics of C01 prescribes. The same universe of transitions (251k quick / 1.6M thorough) is executed on the real cache actor; List(), Get(k) and the returned events of every transition are judged by TLC against the same reference, so a code change is seen as a rejected record. Random 50-step histories on long-lived caches over a larger universe are validated against the spec's own running state. Crashes and wedges of the cache goroutine are captured as records that no spec action allows.",
   note="Trusted: TLC, the Json community module, the harness' projection of real objects to (key, version, label x). The reference semantics is written from the property text. Deviations with signature D7 (duplicate keys in one list, see known_findings.json) are reported as KNOWN-FINDING; everything else is a violation."),
 "C02": dict(cat="model_checking", engine="kernel", design="5 C02, 3.1",
   technique="TLA+ EventsOK (sequential replay of the emitted batch is well-formed, ends in the post-state, no event for an unchanged key) checked by TLC on the model and on every recorded transition of the real cache",
   text="Same exhaustive universe and the same recorded transitions as C01; for each one TLC replays the events the real cache returned on the recorded pre-content and requires Create only on absent keys, Update only on present keys with a strictly newer version, Delete only on present keys, the replay to end exactly in the observed post-content, and no event for a key whose entry did not change. Minimality for redelivered / stale / rejected inputs and unchanged relists is therefore decided for every input of the universe, not for samples.",
   note="Trusted: as C01. Event order inside one batch is free as long as the replay is well-formed (the property says so). System-level mirror checks (a subscriber replaying events equals the cache) belong to the controller/tree families."),
 "C17": dict(cat="model_checking", engine="filters", design="5 C17, 3.5",
   technique="filter terms as TLA+ data with Accept/Equivalent defined in Filters.tla; the real FiltersEqual/Equals evaluated on every ordered pair of terms of the universe, each reported-equal pair and each same-constructor / permuted-sources pair judged by TLC (trace/FilterRecords.tla)",
   text="Every ordered pair of terms of the universe (quick: 2,490 combinator terms -> 6.2M pairs and 970 workload terms -> 0.9M pairs; thorough: 20k + 19k terms -> 0.8 billion pairs) is passed through the real FiltersEqual; every pair reported equal is judged by TLC, which recomputes both accept sets from the specification and requires them to agree on all 176 objects. Every comparable term is built twice and, for workload filters, with its sources reversed and rotated; TLC requires those to compare equal. Exhaustive at depth 2, seeded samples at depth 3.",
   note="Trusted: TLC, Filters.tla's Accept (written from the property text / Kubernetes label-selector semantics), the harness' term-to-constructor mapping. Pairs that involve a replication-controller pods filter are judged under C19's known finding D6, not here."),
 "C18": dict(cat="model_checking", engine="filters", design="5 C18, 3.5",
   technique="recursive TLA+ evaluator Accept(term, object) (Filters.tla) compared by TLC with the recorded result of the real filter's Accept on every (term, object) of the universe",
   text="For every term of the universe (all leaves, Not/And/Or of one and two children, empty And/Or, seeded depth-3 samples) the real filter is built with the library's constructors and Accept is called twice on each of 176 objects (3 namespaces x 3 names x all label maps over 2 keys x 3 values, plus typed objects); TLC evaluates the same term on the same object with the specification's evaluator and rejects the record on any disagreement or on an impure (differing) second call.",
   note="Trusted: as C17. Exhaustive over the stated term/object universe at depth 2; depth 3 sampled with VERIF_SEED."),
 "C19": dict(cat="model_checking", engine="filters", design="5 C19, 3.5",
   technique="Kubernetes ownership rule WSelects(kind, workload, labels) in Filters.tla; every set of up to 2 (quick) / 3 (thorough) workloads per kind built as real typed objects, the real PodsFilter/ServicesFilter/NodeFilter/InvolvedFilter/SelectorMatchFilter evaluated on all candidate objects and judged by TLC",
   text="Exhaustive over workloads in 2 namespaces with selectors {nil, empty, one label, two labels, In, NotIn, Exists} (map selectors for services and replication controllers), two template label sets, same and different names across namespaces, for all seven workload kinds; plus ingress backends, node, involved-object and selector-match filters. TLC compares every recorded verdict with the reference rule.",
   note="Trusted: as C17. Deviations confined to replication-controller sources are the known finding D6 (KNOWN-FINDING); every other kind is a violation. Workload filters are only constrained on pods (services filter: on services)."),
 "C05": dict(cat="model_checking", engine="tree", design="5 C05, 3.3, 4.3",
   technique='trace validation: every line recorded from the real controller/publisher/subscription goroutines is one step of trace/TreeTrace.tla, whose state holds for each subscription the published-but-not-taken backlog, the event in hand and the FIFO outbox; order, exactly-once, fan-out completeness and cache-not-older are evaluated at every step',
   text="Seeded Mode C scenarios: a real controller on the fake API server, trees of Subscribe/Clone (and the other constructors) up to depth 4 created at random positions of a paced stream (<= 20 events unacknowledged), perturbed schedules. TLC replays each trace: a subscription may only take the head of its publisher's backlog (order-in), a consumer only the head of the outbox (order / recv-unexplained), a publisher may not run ahead of a child by more than the one un-logged hand-off (lost-in-fanout), nothing may remain in flight at quiescence, and the controller cache read after a receipt is never older than the event.",
   note="Trusted: TLC, the hook placement discipline (log after the own state change, before publishing it; guarded by the verif tag), the harness' consumers/observers, the stop-the-world quiescence barrier. Scenario choice is seeded (VERIF_SEED); the oracle is not."),
 "C06": dict(cat="model_checking", engine="tree", design="5 C06, 3.3",
   technique='trace validation with the CacheKernel reference embedded: TreeTrace.tla tracks every private cache through the logged sync/update/refilter inputs, checks each emitted batch against the kernel semantics, and at quiescence requires cache = Filtered(parent cache, last filter) for every ready filter node without drops above it',
   text="Scenarios with filtered subscriptions and clones (immediate and deferred, nested), refilters at random points relative to readiness and in-flight events, parent updates that move objects in and out of the filter. Every cache.sync/cache.update/cache.list line of every cache actor is judged against the reference semantics, every fsub.updated/fsub.out line against the cache's delta, and every quiescence snapshot against the filter applied to the parent's content.",
   note="Trusted: TLC, the hook placement discipline (log after the own state change, before publishing it; guarded by the verif tag), the harness' consumers/observers, the stop-the-world quiescence barrier. Scenario choice is seeded (VERIF_SEED); the oracle is not."),
 "C07": dict(cat="model_checking", engine="tree", design="5 C07, 3.3",
   technique="trace validation: each Refilter is the lines fsub.refilter -> cache.list(parent) -> cache.filter -> cache.sync -> fsub.refiltered -> fsub.out*, judged by TreeTrace.tla with the kernel semantics (exact membership delta, nothing for an unchanged key) and the rule 'reported unchanged => same meaning'",
   text="Refilter-heavy scenarios over a 9-filter family (equal by value but distinct instances, overlapping, disjoint, accept-all, accept-none, non-comparable FN, comparable shells around different FNs). TLC requires the events of each refilter to be exactly the kernel's delta between the cache and the newly filtered parent listing, all of them emitted in order, none when the filter is reported unchanged (which in turn requires equal meaning), and the quiescent content to be the filtered parent content (so A->B->A restores).",
   note="Trusted: TLC, the hook placement discipline (log after the own state change, before publishing it; guarded by the verif tag), the harness' consumers/observers, the stop-the-world quiescence barrier. Scenario choice is seeded (VERIF_SEED); the oracle is not."),
 "C08": dict(cat="model_checking", engine="tree", design="5 C08, 3.3",
   technique="trace validation of the readiness state machine: TreeTrace.tla carries parent-ready / pending / ready / filter-supplied per filter node and the controller's first-sync flag; ready, pready, refilter lines must be enabled spec steps and the logged flags must equal the spec's",
   text='Scenarios with gated first lists, nodes created before and after readiness, Refilter(equal/new) before and after the parent is ready, immediate and deferred variants at every depth. TLC rejects: controller ready before a sync, publication before ready, a filter node ready before its parent or (deferred) before a filter was supplied or with a cache that is not the filtered parent listing, an event received or a monitor callback before Ready(), a cache read at the moment Ready() is observed that is not a listing the cache actor produced.',
   note="Trusted: TLC, the hook placement discipline (log after the own state change, before publishing it; guarded by the verif tag), the harness' consumers/observers, the stop-the-world quiescence barrier. Scenario choice is seeded (VERIF_SEED); the oracle is not."),
 "C10": dict(cat="model_checking", engine="tree", design="5 C10, 4.3",
   technique='trace validation with occupancy-window rule: a drop line is a spec step only if the outbox was full when the event came in; stalled, pausing and slow consumers are scripted by the driver; healthy siblings and the controller cache are checked by the same order / completeness / currency rules',
   text='Overflow scenarios with a fixed population that is guaranteed to overflow (never-reading and pausing consumers on plain and filtered subscriptions, under filtered clones, a monitor with a blocking handler) and stream lengths 0,1,99,100,101,250,400,700. TLC requires every drop to fall into a window that saw a full outbox, every healthy consumer to receive the complete sequence in order, nothing to be stuck at quiescence in front of a reading consumer or a library actor, the controller cache to equal the server, driver API calls not to block, and shutdown to complete.',
   note="Trusted: TLC, the hook placement discipline (log after the own state change, before publishing it; guarded by the verif tag), the harness' consumers/observers, the stop-the-world quiescence barrier. Scenario choice is seeded (VERIF_SEED); the oracle is not."),
 "C11": dict(cat="model_checking", engine="tree", design="5 C11, 3.3",
   technique='trace validation of the cascade: TreeTrace.tla derives the tree from the pub.new/pub.subscribe/fsub.new/mon.new lines; a *.stopping line is a spec step only below a node the driver closed (or below a stopped controller); at quiescence everything below a closed node must be stopping, everything else must keep passing events',
   text='Scenarios that close random nodes (subscriptions, filtered subscriptions, clones, filtered clones, monitors) mid-stream, during refilters and before readiness, then continue the stream; finally the root is closed. TLC rejects a stop outside a closed subtree, a descendant still alive at the next quiescence, an Events() channel closed before its buffered events were taken, and any order/completeness deviation of the surviving nodes.',
   note="Trusted: TLC, the hook placement discipline (log after the own state change, before publishing it; guarded by the verif tag), the harness' consumers/observers, the stop-the-world quiescence barrier. Scenario choice is seeded (VERIF_SEED); the oracle is not."),
 "C12": dict(cat="model_checking", engine="tree", design="5 C12",
   technique='trace validation of termination observations: Close() latency, Done() of every node, goroutine census restricted to library frames, results of every API call after Done() are trace lines with no spec action when they report a hang, a leak, a blocked or failed call',
   text="At the end of every scenario (mixed, close and overflow variants) the root is closed: Close() must return within 5 s, every node's Done() must close, every consumer must see its Events() closed, every goroutine with a library frame must be gone, and Subscribe*/Clone*/Refilter/List/Get/Close on every node must return a result or ErrNotRunning. (Shutdown-point enumeration with other triggers is in the controller family.)",
   note="Trusted: TLC, the hook placement discipline (log after the own state change, before publishing it; guarded by the verif tag), the harness' consumers/observers, the stop-the-world quiescence barrier. Scenario choice is seeded (VERIF_SEED); the oracle is not."),
 "C16": dict(cat="model_checking", engine="tree", design="5 C16, 3.3",
   technique="trace validation of the callback protocol: handler entry/exit lines are spec steps of the monitor node in TreeTrace.tla (initialize once and first, with a listing the cache actor produced at or after readiness; each other callback takes the head of the monitor's subscription outbox and matches its type and object; entries and exits alternate; none after Done())",
   text='Monitor scenarios with healthy, slow and blocking handlers, closes at random points relative to readiness and in-flight events. TLC rejects overlapping callbacks, a callback that is not the next undelivered event, a callback before OnInitialize or before readiness or after Done(), an OnInitialize whose argument is not a cache listing, and events left undelivered at quiescence.',
   note="Trusted: TLC, the hook placement discipline (log after the own state change, before publishing it; guarded by the verif tag), the harness' consumers/observers, the stop-the-world quiescence barrier. Scenario choice is seeded (VERIF_SEED); the oracle is not."),
 "C03": dict(cat="model_checking", engine="tree", design="5 C03, 3.2",
   technique="trace validation with fault enumeration: relist-heavy scenarios (refresh 30-80 ms) under scripted watch faults {connect error, hang until cancelled, close, close-after-k, mute, dropped frame, duplicated frame, replay from an older version, status/bookmark/unknown/ERROR/nil/non-object frames} and list latencies / stale lists; TreeTrace.tla consumes the server's, lister's, watcher's, session's, controller's and cache's lines",
   text="For every completed list TLC requires: the list the controller synced is one the fake server returned (in order), the cache after it is Sync(pre, list) by the kernel reference (no regress), the published events are the cache's delta and reach every subscriber in order; after the server goes quiet and two further list results were returned (one may have been in flight), the controller cache equals the accepted server content whatever the watch did; relisting must not stop; Close() must return.",
   note='Trusted: TLC, the hook placement discipline (verif tag), the fake API server (every server-side step is a trace line and is itself consumed by the spec), the stop-the-world quiescence barrier; real time is used only for scripted latencies and generous deadlines (a miss is reported only through a spec-judged trace line).'),
 "C04": dict(cat="model_checking", engine="tree", design="5 C04, 3.2",
   technique="trace validation with fault enumeration, refresh period 1 h: scripted watch faults {server closes, Watch() fails k times, status/bookmark/unknown/ERROR frames, nil and non-object frames, close right after a burst} at random positions of the history, controller slowed by a slow filter around bursts; the watcher's and session's buffers are FIFO stages of TreeTrace.tla and the resume version is spec state",
   text='TLC requires: every data frame becomes exactly one event of the matching type and object and non-data frames none (frame-mistranslated / frame-ignored), a reconnect resumes at the version of the last event the watcher received (resume-version) and keeps what was forwarded (stuck-at-quiescence if forwarded events never reach the controller), events are applied in order, watch faults never stop the controller, a stream is re-established within the scripted number of reconnect delays, and once a stream that has sent the whole history is connected the cache equals the server - with relists disabled.',
   note='Trusted: TLC, the hook placement discipline (verif tag), the fake API server (every server-side step is a trace line and is itself consumed by the spec), the stop-the-world quiescence barrier; real time is used only for scripted latencies and generous deadlines (a miss is reported only through a spec-judged trace line).'),
 "C13": dict(cat="model_checking", engine="tree", design="5 C13, 3.4",
   technique='timed trace validation on the grid latency/period in {0, 1/2, 1, 2, 5} x consumption delay in {0, 1/2, 2}/4 periods, period in {40, 100} ms: the spec consumes srv.listcall / lister.delivered lines with their monotonic timestamps',
   text="TLC requires: never two List calls in flight, each call no earlier than 0.9 period after the previous result was taken (lister.delivered is logged before the ticker is reset and the call is stamped at entry of the fake's List, so the measured gap can only over-estimate the real one), at least 7 lists within a budget of 7 x (1.2 period + latency + delay) + 2 s, and a shutdown at a seeded phase of the cycle that completes (Close returns, no goroutine left).",
   note='Trusted: TLC, the hook placement discipline (verif tag), the fake API server (every server-side step is a trace line and is itself consumed by the spec), the stop-the-world quiescence barrier; real time is used only for scripted latencies and generous deadlines (a miss is reported only through a spec-judged trace line).'),
 "C14": dict(cat="model_checking", engine="tree", design="5 C14, 3.2",
   technique="trace validation with fault enumeration: the k-th list (k = 1..4) fails with {error, nil, non-list object, list of non-objects, context.Canceled while running}; watch faults as in C04; a subtree attached; the controller's final Done()/Error()/Ready() are a trace line",
   text='TLC requires: after a failing list the controller stops by itself with a non-nil Error(), never becomes ready if it was the first list, and its whole subtree shuts down; a controller never stops without a failing list or a deliberate close (so watch faults are never fatal); a deliberate Close() reports no failure.',
   note='Trusted: TLC, the hook placement discipline (verif tag), the fake API server (every server-side step is a trace line and is itself consumed by the spec), the stop-the-world quiescence barrier; real time is used only for scripted latencies and generous deadlines (a miss is reported only through a spec-judged trace line).'),
 "C09": dict(cat="model_checking", engine="joins", design="5 C09",
   technique="record validation: at every quiescence of seeded source/destination histories the join's cache, readiness flags and subscriber events are recorded together with the current source and destination objects; TLC (trace/JoinRecords.tla) recomputes the selection with Filters.tla's ownership rule and replays the events",
   text="All eight generated joins and IngressPods run on real typed controllers over fake servers: sources appear, change selector (map selectors, LabelSelectors with In/NotIn/Exists, nil selector with template labels), disappear, in bursts; pods/services with all label maps over 2 keys x 2 values in 2 namespaces; joins created before the source is ready (gated list). TLC requires at each quiescence: join cache = destination objects selected by >= 1 current source (double join: through the selected services), ready only after both sides, nothing cached before ready, the subscriber's events replay from the previous content to the current one, closing the join result returns, leaves the base controllers delivering and the goroutine census of the bases unchanged over 2-3 create/close cycles.",
   note="Trusted: TLC, Filters.tla's WSelects, the harness' typed object builders and the stop-the-world quiescence barrier. The opaque join filters are judged through the join's content, not through the hook trace. Deviations of the RCPods join are the known finding D6."),
 "C15": dict(cat="model_checking", engine="tree", design="5 C15",
   technique="trace validation of linearizability: reader call/return lines and the cache goroutine's own sync/update/filter/list hook lines are steps of TreeTrace.tla; a returned List()/Get() must equal the spec's cache content at some point between the call line and the return line; kept slices are re-checked; the race detector runs on the same driver as an auxiliary monitor",
   text="1/2/4/8 reader goroutines call List and Get while a writer alternates the real cache actor between distinguishable complete states through multi-object sync / refilter / update (64 scenarios x 300 writes quick). TLC requires every cache.list line to equal the spec content at its linearization point (no half-applied relist or refilter), every returned value to be one of the contents the cache passed through between call and return (so per-caller reads never go backwards), and a slice kept by a caller to be unchanged later although other readers scribble over theirs. A -race build of the same driver must produce no race report.",
   note="Trusted: TLC, hook placement inside the cache goroutine (the true linearization point). 'No data races' is below the grain of a TLA+ specification: the Go race detector is attached as an auxiliary monitor outside the model and reported as class data-race."),
 "C20": dict(cat="other", engine="typed", design="5 C20, 6",
   technique="record validation: typed vs untyped views of the same seeded scenario and the HTTP requests of each typed client are judged by TLC (trace/TypedRecords.tla); the source-text clause of the property is not decided (not a state-machine statement)",
   text="PARTIAL CLAIM. Decided: for all 12 typed packages the typed controller, subscription, cache and monitor observed side by side with the untyped core on one server (creates, updates, deletes, an object of another type mixed into lists and watch frames, gated first list, close) must equal the untyped view restricted to the type, with foreign objects skipped and never crashing; typed monitors obey the callback protocol under slow handlers; every typed client's List/Watch request path and query (namespaced and all namespaces) equals the resource table of the specification. The behaviour of the generated joins is decided by C09. Not decided: textual equality of the generated sources with their templates.",
   note="Trusted: TLC, the reflection adapter that drives the typed APIs, the in-memory HTTP transport. Known finding D8: typed monitors call the handler with a nil object for an object of another type."),
}

NOT_YET = {
}

def main():
    props = [json.loads(l) for l in open(os.path.join(V, "properties.jsonl"))]
    checks = []
    for p in props:
        pid = p["id"]
        if pid not in CHECKS:
            continue
        c = CHECKS[pid]
        checks.append({
            "property_id": pid,
            "quick_cmd": "./check %s --tier quick" % pid,
            "thorough_cmd": "./check %s --tier thorough" % pid,
            "evidence_file": "/verif/evidence/%s.json" % pid,
            "replay_cmd_template": "./check %s --replay {path}" % pid,
            "engine": c["engine"],
            "level_claimed": {"category": c["cat"], "text": c["text"], "design_ref": "DESIGN.md section " + c["design"]},
            "level_note": c["note"],
            "technique": c["technique"],
        })
    na = [{"property_id": p["id"], "reason": NOT_YET.get(p["id"], "check not built yet in this revision of /verif (work in progress; see DESIGN.md section 9 for the order of construction)")}
          for p in props if p["id"] not in CHECKS]
    m = {
        "version": 1,
        "setup_cmd": "./setup.sh",
        "hooks": {
            "guard": "verif",
            "enable": "go build -tags verif (the harness module in /verif/harness replaces github.com/boz/kcache with /repo and is always built with -tags verif)",
            "baseline_off_cmd": "cd /repo && GOFLAGS=-mod=mod GOPROXY=off GOSUMDB=off GOTOOLCHAIN=local go test -vet=off -count=1 ./...",
            "source_commits": HOOK_COMMITS,
            "add_only": True,
        },
        "engines": [
            {"name": "kernel", "path": "/verif/spec/CacheKernel.tla /verif/spec/MCCache.tla /verif/spec/trace/CacheJudge.tla /verif/spec/trace/CacheRecords.tla /verif/spec/trace/CacheWalk.tla /verif/harness/kernel.go /verif/harness/kwalk.go /verif/tools/fam_kernel.py",
             "serves_properties": ["C01", "C02"], "kind_free_text": "TLC model checking of the cache kernel + exhaustive transition recording from the real cache actor judged by TLC"},
            {"name": "filters", "path": "/verif/spec/Filters.tla /verif/spec/trace/FilterRecords.tla /verif/harness/filters.go /verif/tools/fam_filters.py",
             "serves_properties": ["C17", "C18", "C19"], "kind_free_text": "filter terms as data; real constructors/Accept/FiltersEqual recorded over an exhaustive term x object universe; TLC judges with the specification's evaluator"},
            {"name": "tree", "path": "/verif/spec/trace/TreeTrace.tla /verif/spec/CacheKernel.tla /verif/harness/tree.go /verif/harness/ctl.go /verif/harness/tracer.go /verif/harness/fakeserver.go /verif/tools/fam_tree.py",
             "serves_properties": ["C03", "C04", "C05", "C06", "C07", "C08", "C10", "C11", "C12", "C13", "C14", "C15", "C16"], "kind_free_text": "concurrent scenarios on the real code with verif hooks; every recorded line replayed as a step of the TLA+ trace specification by TLC"},
            {"name": "joins", "path": "/verif/spec/trace/JoinRecords.tla /verif/spec/Filters.tla /verif/harness/join.go /verif/harness/objserver.go /verif/tools/fam_filters.py",
             "serves_properties": ["C09"], "kind_free_text": "joins on real typed controllers over fake servers; quiescent records judged by TLC with the ownership rule"},
            {"name": "typed", "path": "/verif/spec/trace/TypedRecords.tla /verif/harness/typed.go /verif/tools/fam_filters.py",
             "serves_properties": ["C20", "C16"], "kind_free_text": "typed vs untyped side by side + typed client requests, judged by TLC"},
        ],
        "checks": checks,
        "not_applicable": na,
        "notes": "All verdicts are TLC verdicts over records/traces of the real code built from /repo's working tree with -tags verif; exit 2 = inconclusive machinery, never a violation. known_findings.json lists recorded (open) defects and the repaired ones.",
    }
    json.dump(m, open(os.path.join(V, "MANIFEST.json"), "w"), indent=1)
    print("MANIFEST.json: %d checks, %d not_applicable" % (len(checks), len(na)))

if __name__ == "__main__":
    main()
