#!/usr/bin/env python3
"""Debug aid: run spec/trace/TreeTrace.tla over one recorded trace and print every verdict.
usage: judge_trace.py <trace.ndjson> [max]"""
import sys, os
sys.path.insert(0, os.path.dirname(os.path.abspath(__file__)))
import vlib, fam_tree

f = os.path.abspath(sys.argv[1])
mx = int(sys.argv[2]) if len(sys.argv) > 2 else 5
d = vlib.tlc_dir(None)
cfgp = os.path.join(d, "tree.cfg")
open(cfgp, "w").write(fam_tree.CFG)
rcs = vlib.run_parallel([(vlib.tlc_argv(d, "TreeTrace.tla", cfgp, workers=1, heap="3g", procs=2), f + ".tlc", {"VT_TRACE": f}, d)], timeout=1200, maxpar=1)
out = open(f + ".tlc").read()
vs = vlib.verdicts(out)
print("rc", rcs, "verdicts", len(vs))
ls = open(f).readlines()
for (ln, cls, txt) in vs[:mx]:
    print("----", ln, cls)
    print(txt[:1500])
    print("LINE:", ls[ln - 1][:600] if 0 < ln <= len(ls) else "?")
if not vs:
    print([l for l in out.splitlines() if "CONSUMED" in l or "Error" in l][:5])
