"""C17 / C18 / C19 - the filter algebra: terms as data, real filters built with the
library's constructors, Accept / FiltersEqual recorded, judged by TLC against
spec/Filters.tla (trace/FilterRecords.tla)."""
import os, re, json, time
import vlib
from vlib import Inconclusive, log
from registry import family

CFG = "SPECIFICATION Spec\nINVARIANT Done\nCHECK_DEADLOCK FALSE\n"

CLASSES = {
    "C17": {"same-ctor-not-equal", "permuted-sources-not-equal", "equal-but-different"},
    "C18": {"impure", "accept"},
    "C19": {"workload-selection", "rc-selection"},
}
MODES = {"C17": [("comb", True), ("workload", True)], "C18": [("comb", False)], "C19": [("workload", False), ("comb", False)]}


def judge(path, nshards):
    d = vlib.tlc_dir(None)
    cfgp = os.path.join(d, "f.cfg")
    open(cfgp, "w").write(CFG)
    cmds = []
    for s in range(nshards):
        cmds.append((vlib.tlc_argv(d, "FilterRecords.tla", cfgp, workers=1, heap="3g", procs=2), "%s.tlc%d" % (path, s),
                     {"VT_TRACE": path, "VT_NSHARDS": str(nshards), "VT_SHARD": str(s)}, d))
    rcs = vlib.run_parallel(cmds, timeout=2400, maxpar=8)
    nrec = sum(1 for _ in open(path))
    verd = []
    for s in range(nshards):
        out = open("%s.tlc%d" % (path, s)).read()
        m = re.search(r'<<"CONSUMED", (\d+)>>', out)
        if rcs[s] != 0 or not m or int(m.group(1)) != nrec:
            raise Inconclusive("TLC did not consume %s shard %d: %s" % (path, s, out[-1500:]))
        verd += vlib.verdicts(out)
    return nrec, verd


@family("C17", "C18", "C19")
def check_filters(prop, tier, replay):
    res = vlib.Result(prop, tier, "model_checking")
    sc = vlib.scratch()
    h = vlib.build_harness()
    want = CLASSES[prop]
    mgen = mdist = 0
    mnames = []
    if prop == "C17":
        mgen, mdist, mnames = vlib.model_check_all([("MCFilters", "MCFilters.cfg")])
    tot_terms = tot_lines = tot_evals = tot_pairs = eqpairs = 0
    samples = []
    for mode, eq in MODES[prop]:
        out = os.path.join(sc, "filters-%s.ndjson" % mode)
        args = ["filters", "-mode", mode, "-tier", tier, "-seed", str(vlib.seed()), "-out", out] + ([] if eq else ["-noeq"])
        if eq:
            # all leaves, all depth-2 terms and the first nested ones pairwise (64 M ordered pairs quick, 400 M thorough)
            args += ["-eqlimit", "8000" if tier == "quick" else "20000"]
        rc, so, se = vlib.run_harness(args, timeout=1200)
        if rc != 0:
            # a filter that panics on an object of the universe: the operation cannot be localised cheaply, report it
            if "panic" in se:
                res.classify("accept" if prop == "C18" else "crash-" + prop, "harness died while evaluating filters: " + se[-1500:])
                continue
            raise Inconclusive("filters driver failed: %s %s" % (so[-500:], se[-1500:]))
        m = re.search(r"terms=(\d+) objects=(\d+) accept_evals=(\d+) accepted=(\d+) pairs=(\d+) equal_pairs=(\d+)", so)
        if not m:
            raise Inconclusive("unexpected driver output " + so[-300:])
        nterms, nobj, nev, nacc, npairs, neq = map(int, m.groups())
        nsh = 4 if tier == "quick" else 16
        t0 = time.time()
        nrec, verd = judge(out, nsh)
        log("%s/%s: %d terms x %d objects, %d ordered pairs (%d reported equal); TLC judged %d lines in %.1fs" % (prop, mode, nterms, nobj, npairs, neq, nrec, time.time() - t0))
        for (ln, cls, txt) in verd:
            if cls in want:
                res.classify(cls, txt, artefact={"mode": mode, "line": ln, "tier": tier, "seed": vlib.seed()})
        tot_terms += nterms
        tot_lines += nrec
        tot_evals += nev + npairs
        tot_pairs += npairs
        eqpairs += neq
        with open(out) as fh:
            for j, line in enumerate(fh):
                if j in (5 + vlib.seed() % 50, 400 + vlib.seed() % 300):
                    r = json.loads(line)
                    if "acc" in r:
                        r["acc"] = "".join(map(str, r["acc"]))
                        r.pop("acc2", None)
                    samples.append(r)
    res.coverage = {
        "states": tot_lines + mdist, "transitions": tot_lines + mgen, "design_models": mnames,
        "traces_validated_against_impl": tot_terms,
        "samples": samples[:4],
        "exhaustive": True,
        "evaluations": tot_evals,
        "distinct_nontrivial": tot_terms,
        "rule": "every term of the universe (all leaves, all unary and binary combinations at depth 2, seeded samples at depth 3; for C19 every set of up to %d workloads per kind over 2 namespaces) built with the real constructors and evaluated on every object of a 176-object universe; distinct = distinct terms; for C17 additionally every ordered pair of terms through FiltersEqual" % (2 if tier == "quick" else 3),
        "terms": tot_terms, "ordered_pairs_compared": tot_pairs, "pairs_reported_equal": eqpairs,
        "checker_cmd": "tlc trace/FilterRecords.tla (judge) over records of `harness filters`",
    }
    res.assumptions = [
        "object universe: 3 namespaces x 3 names x all label maps over keys x,y with 3 values (144 pods) plus pods with node names, services with selectors, events with involved objects and a secret",
        "opaque filter.FN functions are given their meaning by a table in Filters.tla (FnAccept)",
        "workload filters are constrained on pods only, the ingress services filter on services only (the property says nothing about other kinds)",
        "LabelSelector with invalid expressions (panics by contract) and NSName entries with both fields empty are outside the universe",
    ]
    return res.finish()


JCFG = "SPECIFICATION Spec\nINVARIANT Done\nCHECK_DEADLOCK FALSE\n"
JOIN_CLASSES = {"join-ready-before-sides", "join-list-error", "join-not-ready", "join-content-before-ready", "join-selection", "rc-selection",
                "join-duplicates", "join-events-not-delta", "join-close-hangs", "join-close-stops-base", "join-closed-by-source", "join-leak", "join-on-stopped-base", "join-error", "crash"}


def run_joins(res, tier, want):
    sc = vlib.scratch()
    h = vlib.build_harness()
    nproc = 9
    per = 9 if tier == "quick" else 90
    cmds, files = [], []
    for p in range(nproc):
        out = os.path.join(sc, "join-%d.ndjson" % p)
        files.append(out)
        # process p, scenario i uses join (i + seed) mod 9: every process covers several joins, all processes all nine
        cmds.append(([h, "join", "-out", out, "-count", str(per), "-steps", "30", "-seed", str(vlib.seed() * 50 + p)], out + ".log", None))
    t0 = time.time()
    rcs = vlib.run_parallel(cmds, timeout=1500)
    good = []
    for rc, f in zip(rcs, files):
        lg = open(f + ".log").read()
        if rc != 0:
            if "panic" in lg or "fatal error" in lg:
                res.classify("crash", "join driver died: " + lg[:1800])
                continue
            raise Inconclusive("join driver failed rc=%s: %s" % (rc, lg[-800:]))
        good.append(f)
    log("joins: %d join scenarios on the real code in %.1fs" % (per * nproc, time.time() - t0))
    d = vlib.tlc_dir(None)
    cfgp = os.path.join(d, "j.cfg")
    open(cfgp, "w").write(JCFG)
    tl = [(vlib.tlc_argv(d, "JoinRecords.tla", cfgp, workers=1, heap="2g", procs=2), f + ".tlc", {"VT_TRACE": f}, d) for f in good]
    rcs = vlib.run_parallel(tl, timeout=1500, maxpar=9)
    lines = snaps = 0
    joins = set()
    samples = []
    for rc, f in zip(rcs, good):
        out = open(f + ".tlc").read()
        nrec = sum(1 for _ in open(f))
        m = re.search(r'<<"CONSUMED", (\d+)>>', out)
        if rc != 0 or not m or int(m.group(1)) != nrec:
            raise Inconclusive("TLC did not consume %s: %s" % (f, out[-2000:]))
        lines += nrec
        for (ln, cls, txt) in vlib.verdicts(out):
            if cls in want:
                res.classify(cls, txt, artefact={"file": os.path.basename(f), "line": ln, "seed": vlib.seed()})
        for line in open(f):
            r = json.loads(line)
            joins.add(r.get("join"))
            if r["k"] == "join.snap":
                snaps += 1
                if len(samples) < 2 and r["joined"]:
                    samples.append(r)
    if len(joins) < 9 and len(good) == len(files):      # drivers that died are reported as crashes, not as missing coverage
        raise Inconclusive("not every join was exercised: %s" % sorted(joins))
    return dict(lines=lines, snaps=snaps, joins=joins, samples=samples, scenarios=per * nproc)


@family("C09")
def check_joins(prop, tier, replay):
    res = vlib.Result(prop, tier, "model_checking")
    mgen, mdist, mnames = vlib.model_check_all([("Join", "Join.cfg"), ("JoinLife", "JoinLife.cfg")])
    # unbounded counterpart (any sources, destinations, selection relation, number of changes) of Quiescent / ReadyAfterBoth / EmptyBeforeReady
    mnames = mnames + [vlib.prove("JoinProofs")]
    st = run_joins(res, tier, JOIN_CLASSES)
    lines, snaps, joins, samples = st["lines"], st["snaps"], st["joins"], st["samples"]
    per, nproc = st["scenarios"], 1
    res.coverage = {
        "states": mdist, "transitions": mgen, "design_models": mnames, "traces_validated_against_impl": per * nproc, "samples": samples,
        "evaluations": snaps, "distinct_nontrivial": snaps,
        "rule": "seeded source/destination histories (sources that appear, change selector, disappear; pods with all label maps over 2 keys x 2 values in 2 namespaces) for each of the 8 generated joins and IngressPods; one record per quiescence; 2-3 create/close cycles of the join over long-lived base controllers with a goroutine census",
        "joins": sorted(joins), "snapshots": snaps,
        "checker_cmd": "tlc trace/JoinRecords.tla over records of `harness join`",
    }
    res.assumptions = [
        "selection rule: Filters.tla WSelects (same namespace; service: non-empty map selector; others: LabelSelector or, lacking one, template labels); double join: pods selected by services that are backends of an ingress of their namespace",
        "the join's opaque filters are judged through the join's cache content at quiescence, not through the hook trace",
    ]
    return res.finish()


TYPED_CLASSES = {"typed-package-deviates", "typed-request-path", "typed-request-query", "typed-list-incomplete", "typed-request-count", "typed-client-crossed", "typed-readiness-differs", "typed-lifecycle-differs",
                 "typed-returns-foreign-object", "typed-nil-event", "typed-list-error-differs", "typed-events-differ", "typed-clone-events-differ", "typed-nil-in-list", "typed-cache-differs",
                 "typed-monitor-nil-callback", "typed-monitor-differs", "typed-monitor-protocol", "typed-healthy-lost-events", "typed-stalled-not-first-buffer", "typed-leak", "typed-error", "crash"}


def run_typed(res, tier, want):
    sc = vlib.scratch()
    h = vlib.build_harness()
    nproc = 8
    rounds = 3 if tier == "quick" else 40
    cmds, files = [], []
    for p in range(nproc):
        out = os.path.join(sc, "typed-%d.ndjson" % p)
        files.append(out)
        cmds.append(([h, "typed", "-out", out, "-rounds", str(rounds), "-seed", str(vlib.seed() * 50 + p)], out + ".log", None))
    rcs = vlib.run_parallel(cmds, timeout=1500)
    good = []
    for rc, f in zip(rcs, files):
        lg = open(f + ".log").read()
        if rc != 0:
            if "panic" in lg or "fatal error" in lg:
                res.classify("crash", "typed driver died (an object of another type must be skipped, not crash): " + lg[:1800])
                continue
            raise Inconclusive("typed driver failed rc=%s: %s" % (rc, lg[-800:]))
        good.append(f)
    d = vlib.tlc_dir(None)
    cfgp = os.path.join(d, "t.cfg")
    open(cfgp, "w").write(JCFG)
    tl = [(vlib.tlc_argv(d, "TypedRecords.tla", cfgp, workers=1, heap="2g", procs=2), f + ".tlc", {"VT_TRACE": f}, d) for f in good]
    rcs = vlib.run_parallel(tl, timeout=1500, maxpar=8)
    lines = snaps = reqs = 0
    pkgs = set()
    samples = []
    for rc, f in zip(rcs, good):
        out = open(f + ".tlc").read()
        nrec = sum(1 for _ in open(f))
        m = re.search(r'<<"CONSUMED", (\d+)>>', out)
        if rc != 0 or not m or int(m.group(1)) != nrec:
            raise Inconclusive("TLC did not consume %s: %s" % (f, out[-2000:]))
        lines += nrec
        for (ln, cls, txt) in vlib.verdicts(out):
            if cls in want:
                res.classify(cls, txt, artefact={"file": os.path.basename(f), "line": ln, "seed": vlib.seed()})
        for line in open(f):
            r = json.loads(line)
            pkgs.add(r.get("pkg"))
            if r["k"] == "typed.snap":
                snaps += 1
                if len(samples) < 1 and r["tag"] == "end":
                    samples.append(r)
            if r["k"] == "typed.req":
                reqs += 1
                if len(samples) < 3 and r["op"] == "watch" and r["ns"]:
                    samples.append(r)
    if len(pkgs) < 12 and len(good) == len(files):
        raise Inconclusive("not every typed package was exercised: %s" % sorted(pkgs))
    return dict(lines=lines, snaps=snaps, reqs=reqs, pkgs=pkgs, samples=samples)


@family("C20")
def check_typed(prop, tier, replay):
    res = vlib.Result(prop, tier, "other")
    mgen, mdist, mnames = vlib.model_check_all([("Typed", "Typed.cfg")])
    mnames = mnames + [vlib.prove("TypedProofs")]
    st = run_typed(res, tier, TYPED_CLASSES)
    lines, snaps, reqs, pkgs, samples = st["lines"], st["snaps"], st["reqs"], st["pkgs"], st["samples"]
    # the generated joins: each of them against the reference selection (the replication controller's own
    # selection rule, known finding D6, is accounted for under C09/C19)
    js = run_joins(res, tier, JOIN_CLASSES - {"rc-selection"})
    res.coverage = {
        "explanation": "Decided with the specification: (a) behavioural faithfulness - for all 12 typed packages the same seeded scenario (creates, updates, deletes, an object of another type on the stream, gated first list, close) is observed through the typed controller / subscription / cache / monitor and through the untyped core side by side, and TLC requires the typed view to equal the untyped view restricted to the type; (b) for all 12 typed clients the List and Watch requests (namespaced and all-namespaces) recorded by an in-memory HTTP transport are compared by TLC with the resource table in TypedRecords.tla, and List against a chunk-aware fake holding 3 / 40 / 1300 objects must return all of them; (c) packages that run the same seeded scenario must observe the same type-independent signature; (d) the nine joins against the reference selection (JoinRecords). NOT decided: the clause 'the generated sources equal their templates instantiated for the type' is a statement about program text and has no counterpart in a state-machine specification (DESIGN.md section 6).",
        "evaluations": snaps + reqs, "distinct_nontrivial": snaps + reqs,
        "samples": samples, "packages": sorted(pkgs), "snapshots": snaps, "requests": reqs,
        "joins": sorted(js["joins"]), "join_snapshots": js["snaps"],
        "states": mdist + lines + js["lines"], "transitions": mgen + lines + js["lines"], "design_models": mnames,
        "checker_cmd": "tlc trace/TypedRecords.tla over records of `harness typed`",
    }
    res.assumptions = ["both controllers list the same server state (no mutation until both are ready), so their event sequences are comparable element by element",
                       "generated joins: the same scenarios and judge (JoinRecords) as C09",
                       "instances of one template agree on a scenario: four packages run each seeded scenario and must observe the same type-independent signature (a behavioural consequence of the source-level clause)"]
    return res.finish()
