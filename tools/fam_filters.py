"""C17 / C18 / C19 - the filter algebra: terms as data, real filters built with the
library's constructors, Accept / FiltersEqual recorded, judged by TLC against
spec/Filters.tla (trace/FilterRecords.tla)."""
import os, re, json, time
import vlib
from vlib import Inconclusive, log
from registry import family

CFG = "SPECIFICATION Spec\nINVARIANT Done\nCHECK_DEADLOCK FALSE\n"

CLASSES = {
    "C17": {"same-ctor-not-equal", "permuted-sources-not-equal", "equal-but-different"},
    "C18": {"impure", "accept"},
    "C19": {"workload-selection", "rc-selection"},
}
MODES = {"C17": [("comb", True), ("workload", True)], "C18": [("comb", False)], "C19": [("workload", False), ("comb", False)]}


def judge(path, nshards):
    d = vlib.tlc_dir(None)
    cfgp = os.path.join(d, "f.cfg")
    open(cfgp, "w").write(CFG)
    cmds = []
    for s in range(nshards):
        cmds.append((vlib.tlc_argv(d, "FilterRecords.tla", cfgp, workers=1, heap="3g", procs=2), "%s.tlc%d" % (path, s),
                     {"VT_TRACE": path, "VT_NSHARDS": str(nshards), "VT_SHARD": str(s)}, d))
    rcs = vlib.run_parallel(cmds, timeout=2400, maxpar=8)
    nrec = sum(1 for _ in open(path))
    verd = []
    for s in range(nshards):
        out = open("%s.tlc%d" % (path, s)).read()
        m = re.search(r'<<"CONSUMED", (\d+)>>', out)
        if rcs[s] != 0 or not m or int(m.group(1)) != nrec:
            raise Inconclusive("TLC did not consume %s shard %d: %s" % (path, s, out[-1500:]))
        verd += vlib.verdicts(out)
    return nrec, verd


@family("C17", "C18", "C19")
def check_filters(prop, tier, replay):
    res = vlib.Result(prop, tier, "model_checking")
    sc = vlib.scratch()
    h = vlib.build_harness()
    want = CLASSES[prop]
    tot_terms = tot_lines = tot_evals = tot_pairs = eqpairs = 0
    samples = []
    for mode, eq in MODES[prop]:
        out = os.path.join(sc, "filters-%s.ndjson" % mode)
        args = ["filters", "-mode", mode, "-tier", tier, "-seed", str(vlib.seed()), "-out", out] + ([] if eq else ["-noeq"])
        rc, so, se = vlib.run_harness(args, timeout=1200)
        if rc != 0:
            # a filter that panics on an object of the universe: the operation cannot be localised cheaply, report it
            if "panic" in se:
                res.classify("accept" if prop == "C18" else "crash-" + prop, "harness died while evaluating filters: " + se[-1500:])
                continue
            raise Inconclusive("filters driver failed: %s %s" % (so[-500:], se[-1500:]))
        m = re.search(r"terms=(\d+) objects=(\d+) accept_evals=(\d+) accepted=(\d+) pairs=(\d+) equal_pairs=(\d+)", so)
        if not m:
            raise Inconclusive("unexpected driver output " + so[-300:])
        nterms, nobj, nev, nacc, npairs, neq = map(int, m.groups())
        nsh = 4 if tier == "quick" else 16
        t0 = time.time()
        nrec, verd = judge(out, nsh)
        log("%s/%s: %d terms x %d objects, %d ordered pairs (%d reported equal); TLC judged %d lines in %.1fs" % (prop, mode, nterms, nobj, npairs, neq, nrec, time.time() - t0))
        for (ln, cls, txt) in verd:
            if cls in want:
                res.classify(cls, txt, artefact={"mode": mode, "line": ln, "tier": tier, "seed": vlib.seed()})
        tot_terms += nterms
        tot_lines += nrec
        tot_evals += nev + npairs
        tot_pairs += npairs
        eqpairs += neq
        with open(out) as fh:
            for j, line in enumerate(fh):
                if j in (5 + vlib.seed() % 50, 400 + vlib.seed() % 300):
                    r = json.loads(line)
                    if "acc" in r:
                        r["acc"] = "".join(map(str, r["acc"]))
                        r.pop("acc2", None)
                    samples.append(r)
    res.coverage = {
        "states": tot_lines, "transitions": tot_lines,
        "traces_validated_against_impl": tot_terms,
        "samples": samples[:4],
        "exhaustive": True,
        "evaluations": tot_evals,
        "distinct_nontrivial": tot_terms,
        "rule": "every term of the universe (all leaves, all unary and binary combinations at depth 2, seeded samples at depth 3; for C19 every set of up to %d workloads per kind over 2 namespaces) built with the real constructors and evaluated on every object of a 176-object universe; distinct = distinct terms; for C17 additionally every ordered pair of terms through FiltersEqual" % (2 if tier == "quick" else 3),
        "terms": tot_terms, "ordered_pairs_compared": tot_pairs, "pairs_reported_equal": eqpairs,
        "checker_cmd": "tlc trace/FilterRecords.tla (judge) over records of `harness filters`",
    }
    res.assumptions = [
        "object universe: 3 namespaces x 3 names x all label maps over keys x,y with 3 values (144 pods) plus pods with node names, services with selectors, events with involved objects and a secret",
        "opaque filter.FN functions are given their meaning by a table in Filters.tla (FnAccept)",
        "workload filters are constrained on pods only, the ingress services filter on services only (the property says nothing about other kinds)",
        "LabelSelector with invalid expressions (panics by contract) and NSName entries with both fields empty are outside the universe",
    ]
    return res.finish()
