#!/usr/bin/env python3
"""The other direction of the kill matrix: behaviour-preserving changes (refactorings, clean-ups, neutral
optimisations written by sub-agents that were told to keep every property) are applied in a scratch worktree of
/repo (VERIF_REPO) and the quick checks of the properties anchored in the touched files are run.  Every check must
stay silent (exit 0); an alarm here is a false alarm of the machinery, or the change is not harmless after all -
decided by reading the verdict.
usage: benign.py [--only ID,ID]     -> seeded/benign/MATRIX.json"""
import json, os, subprocess, sys, shutil, tempfile, time, glob, re

V = os.path.dirname(os.path.dirname(os.path.abspath(__file__)))
DIR = os.path.join(V, "seeded", "benign")
BY_FILE = [
    (r"^cache\.go$", ["C01", "C02", "C03", "C06", "C15"]),
    (r"^controller\.go$", ["C03", "C04", "C05", "C08", "C14", "C12"]),
    (r"^(lister|ticker)\.go$", ["C13", "C03", "C12"]),
    (r"^(watcher|watch_session)\.go$", ["C04", "C03", "C12", "C14"]),
    (r"^(builder|util|event)\.go$", ["C03", "C14", "C01"]),
    (r"^(publisher|subscription)\.go$", ["C05", "C10", "C11", "C12"]),
    (r"^subscription_filter\.go$", ["C06", "C07", "C08", "C10"]),
    (r"^monitor\.go$", ["C16", "C11"]),
    (r"^filter/", ["C17", "C18", "C07"]),
    (r"^nsname/", ["C17", "C18"]),
    (r"^join/", ["C09", "C20"]),
    (r"^types/", ["C20", "C19", "C09"]),
    (r"^client/", ["C20"]),
]


def sh(cmd, cwd=None, env=None, timeout=3000):
    p = subprocess.run(cmd, shell=True, cwd=cwd, env=env, stdout=subprocess.PIPE, stderr=subprocess.STDOUT, text=True, timeout=timeout)
    return p.returncode, p.stdout


def main():
    only = sys.argv[sys.argv.index("--only") + 1].split(",") if "--only" in sys.argv else None
    wt = tempfile.mkdtemp(prefix="bn-repo-", dir="/tmp")
    os.rmdir(wt)
    rc, out = sh("git -C /repo worktree add -q --detach %s HEAD" % wt)
    assert rc == 0, out
    mp = os.path.join(DIR, "MATRIX.json")
    matrix = json.load(open(mp)) if os.path.exists(mp) else {}
    try:
        for d in sorted(glob.glob(os.path.join(DIR, "B*-*"))):
            cid = os.path.basename(d)
            if only and cid not in only:
                continue
            patch = os.path.join(d, "patch.diff")
            files = re.findall(r"^diff --git a/(\S+)", open(patch).read(), re.M)
            props = []
            for f in files:
                for pat, ps in BY_FILE:
                    if re.search(pat, f):
                        for p in ps:
                            if p not in props:
                                props.append(p)
            sh("git checkout -q -- . && git clean -fdq", cwd=wt)
            rc, out = sh("git apply %s" % patch, cwd=wt)
            if rc != 0:
                matrix[cid] = {"error": "patch does not apply: " + out[-300:]}
                continue
            env0 = dict(os.environ, GOFLAGS="-mod=mod", GOPROXY="off", GOSUMDB="off", GOTOOLCHAIN="local")
            rc, out = sh("go build ./... && go build -tags verif ./... && go test -vet=off -count=1 ./... 2>&1 | grep -v 'no test files' | grep -v '^ok' | head -5", cwd=wt, env=env0)
            res = {"files": files, "suite": "ok" if rc == 0 and "FAIL" not in out else out[-300:]}
            for p in props:
                env = dict(env0, VERIF_REPO=wt, VERIF_SEED=os.environ.get("VERIF_SEED", "1"), VERIF_EVIDENCE_DIR="/tmp/bn-evidence", VERIF_REPLAY_DIR="/tmp/bn-replays")
                t0 = time.time()
                rc, out = sh("./check %s --tier quick" % p, cwd=V, env=env)
                cls = sorted(set(re.findall(r"class=([A-Za-z0-9-]+)", out)))
                res[p] = {"exit": rc, "classes": cls[:6], "wall_s": round(time.time() - t0, 1)}
                if rc == 2:
                    res[p]["inconclusive"] = out[-300:]
                print(cid, p, "exit=%d" % rc, cls[:4], flush=True)
            matrix[cid] = res
            json.dump(matrix, open(mp, "w"), indent=1, sort_keys=True)
    finally:
        sh("git -C /repo worktree remove --force %s" % wt)
        shutil.rmtree(wt, ignore_errors=True)


if __name__ == "__main__":
    main()
