FAMILIES = {}


def family(*props):
    def deco(fn):
        for p in props:
            FAMILIES[p] = fn
        return fn
    return deco
