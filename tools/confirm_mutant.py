#!/usr/bin/env python3
"""Confirm a seeded change: in a scratch worktree of /repo (removed afterwards)
 1. the patch applies, the library builds with and without -tags verif,
 2. the unedited repository suite passes with the patch (up to 3 attempts: the suite has 10 ms timing asserts),
 3. the demonstration fails with the patch and passes without it.
Writes <dir>/confirm.json.  usage: confirm_mutant.py <candidate-dir>..."""
import json, os, subprocess, sys, shutil, tempfile, time

ENV = dict(os.environ, GOFLAGS="-mod=mod", GOPROXY="off", GOSUMDB="off", GOTOOLCHAIN="local")


def sh(cmd, cwd, timeout=600):
    try:
        p = subprocess.run(cmd, shell=True, cwd=cwd, env=ENV, stdout=subprocess.PIPE, stderr=subprocess.STDOUT, text=True, timeout=timeout)
        return p.returncode, p.stdout
    except subprocess.TimeoutExpired as e:
        return 124, "TIMEOUT " + str(e.stdout)[-2000:]


def confirm(d):
    meta = json.load(open(os.path.join(d, "meta.json")))
    wt = tempfile.mkdtemp(prefix="cm-", dir="/tmp")
    os.rmdir(wt)
    res = {"dir": d, "property": meta.get("property")}
    try:
        rc, out = sh("git -C /repo worktree add -q --detach %s HEAD" % wt, "/repo")
        if rc:
            res["error"] = out
            return res
        patch = os.path.abspath(os.path.join(d, "patch.diff"))
        rc, out = sh("git apply %s" % patch, wt)
        res["applies"] = rc == 0
        if rc:
            res["error"] = out[-500:]
            return res
        rc1, o1 = sh("go build ./... && go build -tags verif ./...", wt)
        res["builds"] = rc1 == 0
        if rc1:
            res["error"] = o1[-800:]
            return res
        ok = False
        for attempt in range(3):
            rc, out = sh("go test -vet=off -count=1 ./... 2>&1 | grep -v 'no test files'", wt, timeout=900)
            if "FAIL" not in out and rc == 0:
                ok = True
                break
            res.setdefault("suite_fail_output", []).append(out[-600:])
        res["suite_passes_with_patch"] = ok
        # demo with the patch
        dest = os.path.join(wt, meta.get("demo_dest", ".") or ".")
        demo_files = [f for f in os.listdir(d) if f.endswith("_test.go") or (f.endswith(".go") and f != "patch.diff")]
        for f in demo_files:
            shutil.copy(os.path.join(d, f), dest)
        cmd = meta["demo_cmd"]
        fails = 0
        for attempt in range(2):
            rc, out = sh(cmd, wt, timeout=300)
            if rc != 0:
                fails += 1
        res["demo_fails_with_patch"] = fails == 2
        res["demo_with_tail"] = out[-400:]
        sh("git apply -R %s" % patch, wt)
        passes = 0
        for attempt in range(2):
            rc, out = sh(cmd, wt, timeout=300)
            if rc == 0:
                passes += 1
        res["demo_passes_without_patch"] = passes == 2
        if passes != 2:
            res["demo_without_tail"] = out[-400:]
        res["confirmed"] = bool(ok and fails == 2 and passes == 2)
        return res
    finally:
        sh("git -C /repo worktree remove --force %s" % wt, "/repo")
        shutil.rmtree(wt, ignore_errors=True)
        json.dump(res, open(os.path.join(d, "confirm.json"), "w"), indent=1)


if __name__ == "__main__":
    for d in sys.argv[1:]:
        t0 = time.time()
        r = confirm(d)
        print(os.path.basename(d.rstrip("/")), "confirmed=%s" % r.get("confirmed"), {k: v for k, v in r.items() if k in ("applies", "builds", "suite_passes_with_patch", "demo_fails_with_patch", "demo_passes_without_patch")}, "%.0fs" % (time.time() - t0), flush=True)
