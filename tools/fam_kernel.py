"""C01 / C02 - the sequential cache kernel.

1. TLC model-checks spec/MCCache.tla: from every reachable (filter, content)
   state every operation of the universe is run through the transcription of
   cache.go's algorithm and checked against the reference semantics.
2. The Go harness executes the same universe of transitions on the real cache
   actor and records (pre, op, List(), Get(k)..., events).
3. TLC (spec/trace/CacheRecords.tla) judges every record against the reference.
4. Random walks over a larger universe are recorded from one long-lived cache
   each and judged by spec/trace/CacheWalk.tla (stateful).
"""
import os, json, time, random, re
import vlib
from vlib import Inconclusive, log
from registry import family

UNIVERSE = {
    "quick":    dict(keys="a,b", versions="-99,-1,0,1,2", labels="0,1", filters="null,all,lx1,nsa", maxlist=2, mcversions="VersionsQuick"),
    "thorough": dict(keys="a,b", versions="-99,-1,0,1,2,3,4,5", labels="0,1", filters="null,all,lx1,nsa", maxlist=2, mcversions="VersionsFull"),
}
# a second, smaller pass of the thorough tier with the remaining filters of the family
UNIVERSE_EXTRA = dict(keys="a,b", versions="-99,0,1,2", labels="0,1", filters="null,lx0,fnx0,nlx1,lx1", maxlist=2)

C01_CLASSES = {"wedge", "crash", "anomaly", "list-get-disagree", "filter-inv", "regress", "unlisted-present",
               "invented-entry", "refsync", "dupkey-older-accepted-survives", "refupdate", "unparsed"}
C02_CLASSES = {"events"}

SHARDS = 8


def tla_set(csv, quote=False):
    xs = [x.strip() for x in csv.split(",")]
    if quote:
        xs = ['"%s"' % x for x in xs]
    return "{" + ", ".join(xs) + "}"


def mc_cfg(u):
    return """SPECIFICATION Spec
CONSTANTS
  Keys = %s
  Labels = %s
  Filters = %s
  Versions <- %s
  MaxList = %d
  StrictDup = FALSE
INVARIANTS TypeOK Inv
CHECK_DEADLOCK FALSE
""" % (tla_set(u["keys"], True), tla_set(u["labels"]), tla_set(u["filters"], True), u["mcversions"], u["maxlist"])


REC_CFG = """SPECIFICATION Spec
CONSTANTS
  Keys = %s
  Labels = {0, 1}
  Filters = {"null", "all", "lx1", "lx0", "fnx0", "nlx1", "nsa", "anx0", "anx1", "nsp1", "nsp2", "nnpa", "nnpb", "sel0", "selall"}
INVARIANT Done
CHECK_DEADLOCK FALSE
"""


def run_records(u, tag, res, want):
    """Run the harness over universe u (sharded) and judge the records with TLC."""
    sc = vlib.scratch()
    vlib.build_harness()
    cmds = []
    files = []
    for i in range(SHARDS):
        out = os.path.join(sc, "%s-%d.ndjson" % (tag, i))
        files.append(out)
        argv = [vlib.build_harness(), "kernel", "-out", out, "-shards", str(SHARDS), "-shard", str(i),
                "-keys", u["keys"], "-versions", u["versions"], "-labels", u["labels"], "-filters", u["filters"],
                "-maxlist", str(u["maxlist"])]
        cmds.append((argv, out + ".log", None))
    t0 = time.time()
    rcs = vlib.run_parallel(cmds, timeout=1500)
    nstates = 0
    for i, rc in enumerate(rcs):
        logtxt = open(files[i] + ".log").read()
        if rc == 0:
            m = re.search(r"states=(\d+) \(of (\d+)\) records=(\d+)", logtxt)
            if not m:
                raise Inconclusive("kernel shard %d: unexpected output %r" % (i, logtxt[-500:]))
            nstates = int(m.group(2))
        elif rc == 3:
            log("kernel shard %d wedged (recorded as a 'wedge' line)" % i)
        elif rc == 124:
            raise Inconclusive("kernel shard %d timed out" % i)
        else:
            # the process died (a panic in the cache goroutine kills it): rerun the shard carefully so
            # that the operation in flight is on disk, and keep only the trailing intent line
            log("kernel shard %d died (rc=%d); re-running it in careful mode to localise the operation" % (i, rc))
            argv = cmds[i][0] + ["-careful"]
            rc2 = vlib.run_parallel([(argv, files[i] + ".log2", None)], timeout=3000)[0]
            if rc2 == 0:
                raise Inconclusive("kernel shard %d died once (rc=%d) but not when re-run: %s" % (i, rc, logtxt[-800:]))
            lines = open(files[i]).read().split("\n")
            lines = [l for l in lines if l.strip()]
            keep = [l for l in lines[:-1] if '"intent":1' not in l]
            if lines and '"intent":1' in lines[-1]:
                keep.append(lines[-1])
            elif lines and lines[-1].endswith("}"):
                keep.append(lines[-1])
            open(files[i], "w").write("\n".join(keep) + "\n")
    log("%s: real cache executed %s in %.1fs" % (tag, ", ".join(open(f + ".log").read().strip().split("\n")[-1][:60] for f in files[:1]), time.time() - t0))
    # judge
    d = vlib.tlc_dir(None)
    cfgp = os.path.join(d, "rec.cfg")
    open(cfgp, "w").write(REC_CFG % tla_set(u["keys"], True))
    tl = []
    for i, f in enumerate(files):
        argv = vlib.tlc_argv(d, "CacheRecords.tla", cfgp, workers=1, heap="2g", procs=2)
        tl.append((argv, f + ".tlc", {"VT_TRACE": f}, d))
    t0 = time.time()
    rcs = vlib.run_parallel(tl, timeout=1500, maxpar=SHARDS)
    total = 0
    samples = []
    nontrivial = 0
    for i, f in enumerate(files):
        out = open(f + ".tlc").read()
        nrec = sum(1 for _ in open(f))
        m = re.search(r'<<"CONSUMED", (\d+)>>', out)
        if rcs[i] != 0 or not m or int(m.group(1)) != nrec:
            raise Inconclusive("TLC did not consume record file %s (rc=%s, %s of %d): %s" % (f, rcs[i], m and m.group(1), nrec, out[-1500:]))
        total += nrec
        for (ln, cls, txt) in vlib.verdicts(out):
            if cls in want:
                res.classify(cls, txt, artefact={"record_file_line": ln, "universe": u})
        with open(f) as fh:
            for j, line in enumerate(fh):
                if '"ev":[[' in line:
                    nontrivial += 1
                    if len(samples) < 3 and j % 997 == (vlib.seed() % 997):
                        samples.append(json.loads(line))
    log("%s: TLC judged %d records in %.1fs" % (tag, total, time.time() - t0))
    return total, nstates, nontrivial, samples


@family("C01", "C02")
def check_kernel(prop, tier, replay):
    res = vlib.Result(prop, tier, "model_checking")
    want = C01_CLASSES if prop == "C01" else C02_CLASSES
    u = UNIVERSE[tier]
    # 1. the design: algorithm of cache.go refines the reference semantics
    t0 = time.time()
    rc, out = vlib.run_tlc("MCCache.tla", mc_cfg(u), workers=min(8, vlib.NCPU), heap="6g", timeout=3000)
    gen, dist = vlib.tlc_stats(out)
    if rc != 0 or "No error has been found" not in out:
        raise Inconclusive("MCCache: the model itself is refuted or TLC failed (a model-only result is never reported as a violation):\n" + out[-3000:])
    log("MCCache: %d distinct states, %d transitions, %.1fs" % (dist, gen, time.time() - t0))
    # 2+3. the same universe on the real cache, judged by TLC
    total, nstates, nontrivial, samples = run_records(u, "kernel", res, want)
    if nstates and nstates != dist:
        raise Inconclusive("state count mismatch: TLC explored %d states, the Go enumerator %d" % (dist, nstates))
    extra = 0
    if tier == "thorough":
        t2, _, nt2, s2 = run_records(UNIVERSE_EXTRA, "kernelx", res, want)
        extra = t2
        nontrivial += nt2
    # 4. random walks on long-lived caches
    import fam_kernel_walk
    wstats = fam_kernel_walk.run_walks(prop, tier, res, want)
    # 5. C02 at system level: in running controllers / filter subscriptions every cache mutation's events are judged
    #    in situ, what the controller publishes must be exactly what its cache computed, and it must reach the
    #    root subscription in that order
    sysstats = None
    if prop == "C02":
        import fam_tree
        sys_want = fam_tree.KERNEL | {"ctl-events-differ", "fsub-events-differ", "fsub-emits-other", "order-in", "events-not-emitted", "lost-at-quiescence", "crash"}
        nscen, tlines, tsamples, _ = fam_tree.run_tree(prop, tier, res, sys_want, [("mixed", 0.3), ("refilter", 0.3), ("ctl:relist", 0.6)], 96 if tier == "quick" else 1200)
        sysstats = {"scenarios": nscen, "trace_lines": tlines}
        total += nscen
    res.coverage = {
        "states": dist, "transitions": gen,
        "traces_validated_against_impl": total + extra + wstats["walks"],
        "samples": samples + wstats["samples"][:1],
        "exhaustive": True,
        "evaluations": total + extra + wstats["steps"],
        "distinct_nontrivial": nontrivial + wstats["nontrivial"],
        "rule": "every (filter, content) state of the universe x every operation (sync/refilter with every list of length <= %d, create/update/delete with every object) executed on the real cache actor; non-trivial = the operation emitted at least one event; plus %d random walks (%d steps) over a 4-key universe on long-lived caches" % (u["maxlist"], wstats["walks"], wstats["steps"]),
        "universe": u,
        "go_states": nstates,
        "walks": wstats, "system_level": sysstats,
        "checker_cmd": "tlc MCCache.tla; tlc trace/CacheRecords.tla; tlc trace/CacheWalk.tla",
    }
    res.assumptions = [
        "the cache is driven through the unexported sync/update/refilter entry points exposed by verif_hooks.go (the same entry points controller.go and subscription_filter.go use)",
        "model versions: integers incl. -1 and 0, and one non-numeric resource version; model labels: label x in {0,1}",
        "a delete older than the cached version may or may not remove the object (left open by the property)",
    ]
    return res.finish()
