"""Shared machinery of /verif/check: scratch dirs, harness build, TLC runs,
verdict parsing, known findings, evidence files.  Python stdlib only."""
import atexit, json, os, re, shutil, subprocess, sys, tempfile, time, random, glob

VERIF = os.path.dirname(os.path.dirname(os.path.abspath(__file__)))
REPO = os.environ.get("VERIF_REPO", "/repo")
SPEC = os.path.join(VERIF, "spec")
TLA_CP = "/opt/veriftools/tla/tla2tools.jar:/opt/veriftools/tla/CommunityModules-deps.jar"
NCPU = os.cpu_count() or 4

GOENV = dict(os.environ, GOFLAGS="-mod=mod", GOPROXY="off", GOSUMDB="off", GOTOOLCHAIN="local")


class Inconclusive(Exception):
    """Broken machinery / environment (exit 2) - never a violation."""


_scratch = None


def scratch():
    global _scratch
    if _scratch is None:
        base = os.environ.get("VERIF_SCRATCH_BASE", "/tmp")
        _scratch = tempfile.mkdtemp(prefix="verif-", dir=base)
        if not os.environ.get("VERIF_KEEP"):
            atexit.register(lambda: shutil.rmtree(_scratch, ignore_errors=True))
    return _scratch


def seed():
    try:
        return int(os.environ.get("VERIF_SEED", "1"))
    except ValueError:
        return 1


def log(*a):
    print("[check]", *a, flush=True)


# ---------------------------------------------------------------- harness

_harness = None


def build_harness(race=False):
    """Build /verif/harness against /repo's working tree with -tags verif."""
    global _harness
    key = "harness-race" if race else "harness"
    if _harness and key in _harness:
        return _harness[key]
    d = os.path.join(scratch(), "hsrc")
    if not os.path.isdir(d):
        shutil.copytree(os.path.join(VERIF, "harness"), d)
        shutil.copy(os.path.join(REPO, "go.sum"), os.path.join(d, "go.sum"))
        # replace directive follows VERIF_REPO
        gm = open(os.path.join(d, "go.mod")).read().replace("=> /repo", "=> " + REPO)
        open(os.path.join(d, "go.mod"), "w").write(gm)
    out = os.path.join(scratch(), key)
    cmd = ["go", "build", "-tags", "verif"] + (["-race"] if race else []) + ["-o", out, "."]
    t0 = time.time()
    p = subprocess.run(cmd, cwd=d, env=GOENV, stdout=subprocess.PIPE, stderr=subprocess.STDOUT, text=True)
    if p.returncode != 0:
        raise Inconclusive("harness does not build against /repo with -tags verif:\n" + p.stdout[-4000:])
    log("built %s in %.1fs" % (key, time.time() - t0))
    _harness = _harness or {}
    _harness[key] = out
    return out


def run_harness(args, timeout=600, env=None, race=False, cwd=None):
    h = build_harness(race=race)
    e = dict(GOENV)
    if env:
        e.update(env)
    try:
        p = subprocess.run([h] + args, stdout=subprocess.PIPE, stderr=subprocess.PIPE, text=True, timeout=timeout, env=e, cwd=cwd or scratch())
    except subprocess.TimeoutExpired as ex:
        return 124, (ex.stdout or b"").decode() if isinstance(ex.stdout, bytes) else (ex.stdout or ""), "timeout"
    return p.returncode, p.stdout, p.stderr


def run_parallel(cmds, timeout=900, env=None, maxpar=None):
    """Run [(argv, outpath)] concurrently (at most maxpar at a time); returns list of (rc, outpath)."""
    maxpar = maxpar or NCPU
    e = dict(GOENV)
    if env:
        e.update(env)
    res = [None] * len(cmds)
    running = []
    i = 0
    t0 = time.time()
    while i < len(cmds) or running:
        while i < len(cmds) and len(running) < maxpar:
            argv, outp, env_i = cmds[i][:3]
            cwd_i = cmds[i][3] if len(cmds[i]) > 3 else scratch()
            ee = dict(e)
            if env_i:
                ee.update(env_i)
            f = open(outp, "w")
            pr = subprocess.Popen(argv, stdout=f, stderr=subprocess.STDOUT, env=ee, cwd=cwd_i)
            running.append((i, pr, f))
            i += 1
        time.sleep(0.05)
        for item in list(running):
            j, pr, f = item
            rc = pr.poll()
            if rc is not None:
                f.close()
                res[j] = rc
                running.remove(item)
            elif time.time() - t0 > timeout:
                pr.kill()
                f.close()
                res[j] = 124
                running.remove(item)
    return res


# ---------------------------------------------------------------- TLC

def tlc_dir(modules):
    """Copy the spec modules into a fresh scratch directory (TLC litters)."""
    d = tempfile.mkdtemp(prefix="tlc-", dir=scratch())
    for pat in ("*.tla", "trace/*.tla"):
        for f in glob.glob(os.path.join(SPEC, pat)):
            shutil.copy(f, d)
    return d


def tlc_argv(d, module, cfg, workers=1, heap="3g", extra=None, jvm=None, procs=None):
    tmp = os.path.join(d, "tmp")
    os.makedirs(tmp, exist_ok=True)
    meta = tempfile.mkdtemp(prefix="meta-", dir=d)
    argv = ["java", "-XX:+UseSerialGC" if workers == 1 else "-XX:+UseParallelGC", "-Xmx" + heap, "-Xss64m",
            "-Djava.io.tmpdir=" + tmp]
    if procs:
        argv.append("-XX:ActiveProcessorCount=%d" % procs)
    argv += (jvm or [])
    argv += ["-cp", TLA_CP, "tlc2.TLC", "-workers", str(workers), "-metadir", meta, "-config", cfg]
    argv += (extra or [])
    argv.append(module)
    return argv


def run_tlc(module, cfg_text, env=None, workers=1, heap="3g", timeout=900, extra=None, jvm=None, d=None):
    """Run TLC once; returns (rc, output)."""
    d = d or tlc_dir(None)
    cfgp = os.path.join(d, module.replace(".tla", "") + "_%d.cfg" % random.randrange(10**9))
    open(cfgp, "w").write(cfg_text)
    argv = tlc_argv(d, module, cfgp, workers=workers, heap=heap, extra=extra, jvm=jvm)
    e = dict(os.environ)
    if env:
        e.update(env)
    try:
        p = subprocess.run(argv, cwd=d, env=e, stdout=subprocess.PIPE, stderr=subprocess.STDOUT, text=True, timeout=timeout)
    except subprocess.TimeoutExpired as ex:
        out = ex.stdout.decode() if isinstance(ex.stdout, bytes) else (ex.stdout or "")
        return 124, out
    return p.returncode, p.stdout


def model_check(module, cfgname, workers=4, heap="8g", timeout=1800):
    """Model-check a design-level module with spec/cfg/<cfgname>; a refuted model or a TLC failure is
    inconclusive (a model-only result is never reported as a violation).  Returns (generated, distinct)."""
    d = tlc_dir(None)
    cfg_text = open(os.path.join(SPEC, "cfg", cfgname)).read()
    t0 = time.time()
    rc, out = run_tlc(module + ".tla", cfg_text, workers=workers, heap=heap, timeout=timeout, d=d)
    if rc != 0 or "No error has been found" not in out:
        raise Inconclusive("design model %s with %s is refuted or TLC failed (rc=%s); a model-only result is never a violation:\n%s" % (module, cfgname, rc, out[-2500:]))
    gen, dist = tlc_stats(out)
    log("model %s/%s: %d distinct states, %d generated, %.1fs" % (module, cfgname, dist, gen, time.time() - t0))
    return gen, dist


def model_check_all(models):
    gen = dist = 0
    names = []
    for (module, cfgname) in models:
        g, dd = model_check(module, cfgname)
        gen += g
        dist += dd
        names.append("%s[%s]: %d states / %d transitions" % (module, cfgname, dd, g))
    return gen, dist, names


def prove(name):
    """Runs the TLAPS proof spec/proofs/<name>.tla (unbounded version of invariants TLC checks within bounds) in a
    scratch copy.  A proof is about the design model only: its outcome is reported in the evidence and the log and
    never changes a verdict."""
    import shutil
    tl = shutil.which("tlapm")
    if not tl:
        return "tlapm not installed: proof %s not attempted" % name
    d = os.path.join(scratch(), "proof-" + name)
    os.makedirs(d, exist_ok=True)
    for f in os.listdir(SPEC):
        if f.endswith(".tla"):
            shutil.copy(os.path.join(SPEC, f), d)
    # proof-only signatures (uninterpreted operators) take the place of modules tlapm cannot read (RECURSIVE)
    for f in os.listdir(os.path.join(SPEC, "proofs", "stubs")):
        shutil.copy(os.path.join(SPEC, "proofs", "stubs", f), d)
    shutil.copy(os.path.join(SPEC, "proofs", name + ".tla"), d)
    try:
        p = subprocess.run([tl, "--threads", "8", name + ".tla"], cwd=d, stdout=subprocess.PIPE, stderr=subprocess.STDOUT, text=True, timeout=900)
        out = p.stdout
    except subprocess.TimeoutExpired:
        return "proof %s: tlapm timed out" % name
    m = re.search(r"All (\d+) obligations? proved", out)
    if m and p.returncode == 0:
        res = "proof %s: all %s obligations proved by tlapm" % (name, m.group(1))
    else:
        res = "proof %s: NOT proved (rc=%s): %s" % (name, p.returncode, out[-300:].replace("\n", " "))
    log(res)
    return res


def tlc_stats(out):
    """(generated, distinct) from TLC's summary line, or (0,0)."""
    m = re.findall(r"(\d+) states generated, (\d+) distinct states found", out)
    if not m:
        return 0, 0
    g, dd = m[-1]
    return int(g), int(dd)


def tlc_ok(out):
    return "Model checking completed. No error has been found." in out or "Finished computing initial states" in out and "Error:" not in out


_VERD = re.compile(r'<<\s*"VERDICT",')


def parse_tla_value_blocks(out, tag):
    """Extract printed tuples that start with << "tag", ... >> (possibly multi-line)."""
    blocks = []
    lines = out.split("\n")
    i = 0
    start = re.compile(r'^<<\s*"%s"' % re.escape(tag))
    while i < len(lines):
        if start.match(lines[i]):
            buf = [lines[i]]
            depth = lines[i].count("<<") - lines[i].count(">>")
            i += 1
            while depth > 0 and i < len(lines):
                buf.append(lines[i])
                depth += lines[i].count("<<") - lines[i].count(">>")
                i += 1
            blocks.append(" ".join(x.strip() for x in buf))
        else:
            i += 1
    return blocks


def verdicts(out):
    """[(line_no, class, text)] from VERDICT prints."""
    res = []
    for b in parse_tla_value_blocks(out, "VERDICT"):
        m = re.match(r'<<\s*"VERDICT",\s*(\d+),\s*"([^"]+)"\s*,?(.*)>>\s*$', b)
        if m:
            res.append((int(m.group(1)), m.group(2), m.group(3).strip()))
        else:
            res.append((-1, "unparsed", b))
    return res


# ---------------------------------------------------------------- known findings

def known_findings():
    p = os.path.join(VERIF, "known_findings.json")
    if not os.path.exists(p):
        return []
    return json.load(open(p)).get("findings", [])


def open_finding_for(prop, cls):
    for f in known_findings():
        if f.get("status") == "open" and prop in f.get("properties", [f.get("property")]) and cls in f.get("classes", []):
            return f
    return None


# ---------------------------------------------------------------- results

CURRENT_RESULT = None


class Result:
    def __init__(self, prop, tier, level):
        global CURRENT_RESULT
        CURRENT_RESULT = self
        self.prop, self.tier, self.level = prop, tier, level
        self.t0 = time.time()
        self.violations = []      # (class, replay_path, text)
        self.known = {}           # finding id -> count
        self.coverage = {}
        self.assumptions = []

    def violation(self, cls, detail, artefact=None):
        d = os.path.join(os.environ.get("VERIF_REPLAY_DIR", os.path.join(VERIF, "replays")), self.prop)
        os.makedirs(d, exist_ok=True)
        path = os.path.join(d, "%s-%s-%d-%d.json" % (self.prop, re.sub(r"[^A-Za-z0-9_.-]", "_", cls)[:40], int(time.time()), len(self.violations)))
        with open(path, "w") as f:
            json.dump({"property": self.prop, "class": cls, "detail": detail, "artefact": artefact, "tier": self.tier, "seed": seed()}, f, indent=1, default=str)
        self.violations.append((cls, path, detail))
        return path

    def classify(self, cls, detail, artefact=None):
        """A deviation of class `cls`: a listed open finding -> KNOWN-FINDING, else VIOLATION."""
        f = open_finding_for(self.prop, cls)
        if f is not None:
            self.known.setdefault(f["id"], [0, f])[0] += 1
            return False
        if len(self.violations) < 20:
            self.violation(cls, detail, artefact)
        else:
            self.violations.append((cls, self.violations[0][1], detail))
        return True

    def finish(self):
        wall = time.time() - self.t0
        ev = {
            "property_id": self.prop, "tier": self.tier, "seed": seed(), "level": self.level,
            "coverage": self.coverage, "assumptions": self.assumptions, "wall_s": round(wall, 2),
            "violations": len(self.violations),
        }
        if self.known:
            ev["known_findings"] = {k: v[0] for k, v in self.known.items()}
        evdir = os.environ.get("VERIF_EVIDENCE_DIR", os.path.join(VERIF, "evidence"))
        os.makedirs(evdir, exist_ok=True)
        with open(os.path.join(evdir, self.prop + ".json"), "w") as f:
            json.dump(ev, f, indent=1, default=str)
        for k, (n, f) in self.known.items():
            print("KNOWN-FINDING: property=%s %s: %s (%d occurrences this run)" % (self.prop, k, f["what"], n), flush=True)
        if self.violations:
            seen = set()
            for cls, path, detail in self.violations:
                if path in seen:
                    continue
                seen.add(path)
                print("VIOLATION property=%s replay=%s" % (self.prop, path), flush=True)
                print("  class=%s %s" % (cls, str(detail)[:600]), flush=True)
            return 1
        log("%s %s: held on everything explored (%.1fs)" % (self.prop, self.tier, wall))
        return 0
